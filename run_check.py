#!/venv/bin/python
"""Single entry point of the verification machinery.

    run_check.py <ID> --tier quick|thorough      run the check for one property
    run_check.py <ID> --replay <file>            re-judge one saved case

exit 0  property held on everything explored (KNOWN-FINDING lines possible)
exit 1  at least one line `VIOLATION property=<ID> replay=<path>` was printed
exit 2  harness error (never a verdict about mosromgr)
"""
import argparse
import importlib
import json
import os
import sys
import time
import traceback

HERE = os.path.dirname(os.path.abspath(__file__))


def _reexec_pinned():
    if os.environ.get('PYTHONHASHSEED') != '0' or os.environ.get('VERIF_PINNED') != '1':
        env = dict(os.environ, PYTHONHASHSEED='0', VERIF_PINNED='1',
                   PYTHONDONTWRITEBYTECODE='1')
        os.execve(sys.executable, [sys.executable, '-B'] + sys.argv, env)


def _library_site(tb_text, repo_dir):
    """'file:function' of the innermost frame if it lies inside the library under test."""
    import re
    # with worker processes the original traceback comes first (RemoteTraceback text)
    first = tb_text.split('The above exception was the direct cause')[0]
    frames = re.findall(r'File "([^"]+)", line \d+, in (\S+)', first)
    if not frames:
        return None
    # the deepest frame that belongs either to the library or to this machinery decides
    # (frames below it are the standard library / third parties called from there)
    for path, fn in reversed(frames):
        if path.startswith(repo_dir.rstrip('/') + '/') and '/mosromgr/' in path:
            return f"{path.split('/mosromgr/')[-1]}:{fn}"
        if path.startswith(HERE.rstrip('/') + '/'):
            return None
    return None


def main():
    ap = argparse.ArgumentParser()
    ap.add_argument('prop')
    ap.add_argument('--tier', default=os.environ.get('VERIF_TIER', 'quick'),
                    choices=['quick', 'thorough'])
    ap.add_argument('--replay')
    ap.add_argument('--procs', type=int, default=int(os.environ.get('VERIF_PROCS', '16')))
    args = ap.parse_args()
    _reexec_pinned()
    os.chdir(HERE)
    sys.path.insert(0, HERE)
    try:
        from vlib import env, findings, evidence
        mod = importlib.import_module(f'checks.{args.prop.lower()}')
    except Exception:
        traceback.print_exc()
        print(f'HARNESS-ERROR property={args.prop} cannot start')
        return 2
    prop = mod.PROP
    seed = env.seed()
    try:
        if args.replay:
            with open(args.replay) as f:
                rec = json.load(f)
            if 'traceback' in rec['case']:
                print('this replay file records a library exception raised during a check run; it holds the '
                      'traceback, not an input - re-run the check to reproduce:\n' + rec['case']['traceback'][-1500:])
                return 2
            fails = mod.rejudge(rec['case'])
            known = findings.open_known(prop)
            bad = [f for f in fails if f.sig not in known]
            for f in fails:
                tag = 'KNOWN-FINDING' if f.sig in known else 'VIOLATION'
                print(f'{tag} property={prop} signature={f.sig}\n  {f.detail}')
            if not fails:
                print(f'replay: property {prop} holds on this case')
            return 1 if bad else 0
        t0 = time.time()
        col = mod.run(args.tier, seed, args.procs)
        # regression tier: committed minimal cases (fixed findings, mutant killers)
        import glob
        n_reg = 0
        for path in sorted(glob.glob(os.path.join(HERE, 'regress', prop, '*.json'))):
            with open(path) as f:
                rcase = json.load(f)['case']
            if 'traceback' in rcase:
                continue
            n_reg += 1
            col.evaluations += 1
            for fl in mod.rejudge(rcase):
                col.add_failure(fl, rcase)
        col.notes.append(f'regression cases replayed: {n_reg}')
        known = findings.open_known(prop)
        known_seen, violations = [], []
        for sig, rec in sorted(col.failures.items()):
            if sig in known:
                known_seen.append(sig)
                print(f"KNOWN-FINDING: property={prop} {known[sig].get('what', sig)} "
                      f"[{sig}; seen {rec['count']}x]")
                continue
            shrunk = False
            fields = getattr(mod, 'SHRINK_FIELDS', None)
            if (fields or hasattr(mod, 'shrink')) and not os.environ.get('VERIF_NOSHRINK'):
                def still(c, _sig=sig):
                    return any(f.sig == _sig for f in mod.rejudge(c))
                try:
                    small = rec['case']
                    if 'history' in small:
                        from vlib import history
                        small = history.shrink_history(small, still)
                    if hasattr(mod, 'shrink'):
                        small = mod.shrink(small, still)
                    if fields:
                        small = findings.shrink_xml_fields(small, fields, still)
                    if small != rec['case']:
                        fs = [f for f in mod.rejudge(small) if f.sig == sig]
                        if fs:
                            rec = dict(rec, case=small, detail=fs[0].detail,
                                       expected=fs[0].expected, observed=fs[0].observed)
                            shrunk = True
                except Exception:
                    traceback.print_exc()
            path = findings.write_replay(prop, sig, rec, seed, shrunk)
            violations.append((sig, path, rec))
        mandatory = getattr(mod, 'MANDATORY', ())
        missing = [c for c in mandatory if col.classes.get(c, 0) == 0]
        wall = time.time() - t0
        evidence.write(prop, args.tier, seed, col, mod.RULE, mod.ASSUMPTIONS, wall,
                       len(violations), known_seen, mandatory,
                       getattr(mod, 'extra_evidence', lambda c: None)(col))
        for sig, path, rec in violations:
            print(f'VIOLATION property={prop} replay={path}')
            print(f'  signature: {sig} (seen {rec["count"]}x)')
            print(f'  {str(rec["detail"])[:600]}')
        print(f'{prop} {args.tier} seed={seed}: {col.evaluations} evaluations, '
              f'{len(col.nontrivial)} distinct non-trivial, {len(violations)} violations, '
              f'{len(known_seen)} known findings, {wall:.1f}s')
        if violations:
            return 1
        if missing:
            print(f'HARNESS-ERROR property={prop} vacuous: mandatory coverage classes '
                  f'with zero cases: {missing}')
            return 2
        if len(col.nontrivial) < 2:
            print(f'HARNESS-ERROR property={prop} vacuous: fewer than 2 non-trivial cases')
            return 2
        return 0
    except Exception as e:
        tb = traceback.format_exc()
        sys.stderr.write(tb)
        site = _library_site(tb, env.REPO_DIR)
        if site and not args.replay:
            # The exception was raised *inside mosromgr* while the check was computing its
            # own view with inputs that are inside the property's domain (on the unchanged
            # tree this never happens - it would be a broken check).  The library failing
            # there is reported as a violation of the property under test, not hidden as
            # a harness error.
            etype = type(e).__name__
            sig = f'{prop}|library-exception-during-check|{etype}|{site}'
            rec = {'case': {'traceback': tb[-6000:]}, 'detail': f'mosromgr raised {etype} at {site} while the '
                   f'check was exercising it with in-domain input: {e}', 'expected': 'no exception',
                   'observed': etype, 'count': 1}
            path = findings.write_replay(prop, sig, rec, seed, False)
            print(f'VIOLATION property={prop} replay={path}')
            print(f'  signature: {sig}')
            print(f'  {rec["detail"][:400]}')
            return 1
        if not args.replay and 'LibraryFault: ' in tb:
            what = tb.split('LibraryFault: ')[-1].strip().splitlines()[0]
            sig = f'{prop}|{what.split("|")[0]}'
            rec = {'case': {'traceback': tb[-6000:]}, 'detail': what.split('|', 1)[-1][:400],
                   'expected': 'a running order the properties allow (well-formed, with its roCreate)', 'observed': what.split('|')[0], 'count': 1}
            path = findings.write_replay(prop, sig, rec, seed, False)
            print(f'VIOLATION property={prop} replay={path}')
            print(f'  signature: {sig}')
            print(f'  {rec["detail"][:400]}')
            return 1
        if not args.replay and ('FlakyStrategyDefinition' in tb or 'FlakyFailure' in tb or 'hypothesis.errors.Flaky' in tb):
            # Hypothesis replays every case it generates; the generators and judges here are pure
            # functions of the drawn values and of what the library returns.  A replay that goes
            # another way means the LIBRARY answered the same calls differently (state kept between
            # calls: a module-level cache, a shared parse tree, a mutable default argument) - which no
            # property allows: behaviour is quantified over inputs.  On the unchanged tree this never
            # happens (the checks would be flaky); it is reported as a violation, not hidden.
            sig = f'{prop}|library-behaviour-not-reproducible|same calls, different answers within one process'
            rec = {'case': {'traceback': tb[-6000:]}, 'detail': 'the same generated inputs made mosromgr behave differently '
                   'when replayed in the same process (state leaking between calls): ' + str(e)[:300],
                   'expected': 'identical behaviour', 'observed': 'different behaviour', 'count': 1}
            path = findings.write_replay(prop, sig, rec, seed, False)
            print(f'VIOLATION property={prop} replay={path}')
            print(f'  signature: {sig}')
            print(f'  {rec["detail"][:400]}')
            return 1
        print(f'HARNESS-ERROR property={prop} internal error (not a verdict)')
        return 2


def _sweep_work():
    """Remove the per-process scratch directories (.work/<check>-<pid>) of processes that are gone."""
    import glob
    import re
    import shutil
    for d in glob.glob(os.path.join(HERE, '.work', 'c[0-9][0-9]-*')):
        m = re.search(r'-(\d+)$', d)
        if m and not os.path.exists(f'/proc/{m.group(1)}'):
            shutil.rmtree(d, ignore_errors=True)


if __name__ == '__main__':
    rc = main()
    try:
        _sweep_work()
    except Exception:
        pass
    sys.exit(rc)
