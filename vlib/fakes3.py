"""A model-faithful fake of the two boto3 objects mosromgr.utils.s3 uses.

It is installed by assigning the lazily-created handle attributes
(`mosromgr.utils.s3.s3._client` / `._resource`), so the real bodies of
get_mos_files / get_file_contents / MosFile.from_s3 / MosCollection.from_s3 run.

Listing contract modelled after S3 ListObjects: keys are returned in UTF-8 binary
order, filtered by prefix on the "server", in pages of >= 1 key; a listing with no
matching key yields one page without a 'Contents' entry."""
from . import env  # noqa: F401
import mosromgr.utils.s3 as s3mod


class _Body:
    def __init__(self, data):
        self._data = data

    def read(self):
        return self._data


class _Object:
    def __init__(self, store, bucket, key):
        self.store, self.bucket, self.key = store, bucket, key

    def get(self):
        self.store.downloads.append((self.bucket, self.key))
        return {'Body': _Body(self.store.buckets[self.bucket][self.key]), 'ContentLength':
                len(self.store.buckets[self.bucket][self.key])}


class _Resource:
    def __init__(self, store):
        self.store = store

    def Object(self, bucket, key):  # noqa: N802 (boto3 name)
        return _Object(self.store, bucket, key)


class _Paginator:
    def __init__(self, store):
        self.store = store

    def paginate(self, Bucket, Prefix=''):  # noqa: N803 (boto3 names)
        self.store.listings.append((Bucket, Prefix))
        keys = sorted((k for k in self.store.buckets.get(Bucket, {}) if k.startswith(Prefix)),
                      key=lambda k: k.encode('utf-8'))
        if not keys:
            yield {'IsTruncated': False, 'Name': Bucket, 'Prefix': Prefix}
            return
        ps = self.store.page_size
        for i in range(0, len(keys), ps):
            yield {'IsTruncated': i + ps < len(keys), 'Name': Bucket, 'Prefix': Prefix,
                   'Contents': [{'Key': k, 'Size': len(self.store.buckets[Bucket][k])}
                                for k in keys[i:i + ps]]}


class _Client:
    def __init__(self, store):
        self.store = store

    def get_paginator(self, name):
        assert name == 'list_objects', name
        return _Paginator(self.store)


class FakeS3:
    def __init__(self, buckets, page_size=1000):
        """buckets: {bucket: {key: bytes}}"""
        self.buckets = {b: dict(objs) for b, objs in buckets.items()}
        self.page_size = max(1, page_size)
        self.downloads, self.listings = [], []
        self.client, self.resource = _Client(self), _Resource(self)
        self._saved = None
        # every other instance leaves the handles to be created LAZILY by the library itself
        # (s3._client / s3._resource start as None and a stub `boto3` hands out the fakes)
        FakeS3._n += 1
        self.lazy = FakeS3._n % 2 == 0

    _n = 0

    def __enter__(self):
        self._saved = (s3mod.s3._client, s3mod.s3._resource, s3mod.boto3)
        if self.lazy:
            fake = self

            class _Boto3:
                @staticmethod
                def client(name, *a, **k):
                    assert name == 's3', name
                    return fake.client

                @staticmethod
                def resource(name, *a, **k):
                    assert name == 's3', name
                    return fake.resource
            s3mod.boto3 = _Boto3
            s3mod.s3._client = s3mod.s3._resource = None
        else:
            s3mod.s3._client, s3mod.s3._resource = self.client, self.resource
        return self

    def __exit__(self, *a):
        s3mod.s3._client, s3mod.s3._resource, s3mod.boto3 = self._saved
        return False
