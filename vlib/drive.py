"""Drivers shared by the checks: Hypothesis runner (collect, don't raise),
process pool sharding, and the single-step evaluation pipeline."""
import multiprocessing as mp
from xml.etree import ElementTree as ET

from hypothesis import HealthCheck, Phase, given, seed as hseed, settings

from . import env  # noqa: F401
from . import model, step, xmlcmp
from .findings import Collector, h64


DEBUG_LOGGING = False        # set while a shard runs with the library's loggers enabled


class debug_logging:
    """Context manager: the mosromgr loggers enabled down to DEBUG, into a null handler."""
    def __enter__(self):
        import logging
        global DEBUG_LOGGING
        lg = logging.getLogger('mosromgr')
        self.old = (lg.level, lg.propagate, logging.root.manager.disable, DEBUG_LOGGING)
        self.h = logging.NullHandler()
        logging.disable(logging.NOTSET)
        lg.setLevel(logging.DEBUG)
        lg.propagate = False
        lg.addHandler(self.h)
        DEBUG_LOGGING = True
        return self

    def __exit__(self, *exc):
        import logging
        global DEBUG_LOGGING
        lg = logging.getLogger('mosromgr')
        lg.removeHandler(self.h)
        lg.setLevel(self.old[0])
        lg.propagate = self.old[1]
        logging.disable(self.old[2])
        DEBUG_LOGGING = self.old[3]
        return False


def with_logging_config(fn):
    """Half of the shards (chosen by a hash of their arguments) run with the library's
    loggers enabled down to DEBUG (into a null handler) instead of disabled: what a
    message does must not depend on how the application configured logging."""
    import functools
    import logging

    @functools.wraps(fn)
    def wrapper(args):
        if h64(repr(args)) % 2 == 0:
            return fn(args)
        with debug_logging():
            col = fn(args)
            col.classes['shards-with-DEBUG-logging-enabled'] += 1
            return col
    return wrapper


def run_given(strategy, fn, n, seed):
    """Run fn(case) on n generated cases.  fn never raises for a property
    violation (it records it); any exception is a harness error and propagates."""
    @hseed(seed)
    @settings(max_examples=n, database=None, deadline=None, derandomize=False,
              phases=[Phase.generate], report_multiple_bugs=False,
              suppress_health_check=list(HealthCheck))
    @given(strategy)
    def t(case):
        fn(case)
    t()


def pool_map(fn, arglist, procs):
    """Map fn over arglist in forked worker processes (results in order)."""
    procs = max(1, min(procs, len(arglist)))
    if procs == 1:
        return [fn(a) for a in arglist]
    ctx = mp.get_context('fork')
    with ctx.Pool(procs) as pool:
        return pool.map(fn, arglist, chunksize=1)


def merge_all(prop, cols):
    out = Collector(prop)
    for c in cols:
        out.merge(c)
    return out


class StepEval:
    """Everything known about one evaluated step."""
    __slots__ = ('case', 'msg', 'state', 'ex', 'obs')


def eval_step(case):
    """case {'ro_xml','msg_xml'} -> StepEval (library executed once)."""
    if case.get('logging') == 'debug' and not DEBUG_LOGGING:
        with debug_logging():
            return eval_step(case)
    ev = StepEval()
    if DEBUG_LOGGING and 'logging' not in case:
        case = dict(case, logging='debug')      # so that the replay runs the same way
    ev.case = case
    ev.msg = model.Msg(case['msg_xml'])
    ev.state = xmlcmp.state_of(ET.fromstring(case['ro_xml']))
    ev.ex = model.expect(ev.state, ev.msg)
    ev.obs = step.run_step(case['ro_xml'], case['msg_xml'])
    if ev.obs.parse_exc is None and ev.msg.kind is not None and ev.obs.cls_name != ev.msg.kind:
        # the model and the library disagree on what the message *is*: this is
        # C08's business; the step judges would compare apples and oranges
        # (the message text decides what the message IS - C08's table; the step judges keep the
        # model's expectation, so a merge done as another class is judged for what it does)
        ev.ex.note = f'class-mismatch model={ev.msg.kind} library={ev.obs.cls_name}'
    return ev


def ev_key(ev):
    """Distinctness key of a judged step: (state text before, message text)."""
    return h64(ev.obs.before or '', ev.msg.text)


# ------------------------------------------------------------ generic shards
# A check module provides `record(col, ev)` (judge + classify one StepEval).

def _mod(name):
    import importlib
    return importlib.import_module(name)


@with_logging_config
def shard_enum_story(args):
    """Exhaustive story-level scope: one (n stories, layout) cell."""
    from . import gen
    modname, n, layout, max_sources = args
    mod = _mod(modname)
    col = Collector(mod.PROP)
    sids = [f'S{i}' for i in range(n)]
    items_for = {s: [f'I{j}' for j in range(2)] for s in sids[:2]}
    ro_xml = gen.ro_with_layout(sids, layout, items_for=items_for)
    for _label, msg_xml in gen.enum_story_messages(sids, max_sources=max_sources):
        mod.record(col, eval_step({'ro_xml': ro_xml, 'msg_xml': msg_xml}))
    col.scopes.append(f'story-level: n={n} stories, layout={layout}, every message kind x '
                      f'every ordered source tuple (<= {max_sources}) x every target')
    return col


@with_logging_config
def shard_enum_story_big(args):
    """The story-level enumeration again, on a very long running order: `fill` filler stories
    first, so that every addressed story sits at a child index beyond 256 (where small-integer
    identity, single-digit assumptions and the like stop holding)."""
    from . import gen, build as B
    modname, n, fill, max_sources = args
    mod = _mod(modname)
    col = Collector(mod.PROP)
    sids = [f'S{i}' for i in range(n)]
    root = ET.fromstring(gen.ro_with_layout(sids, 'after', items_for={s: ['I0', 'I1'] for s in sids[:2]}))
    rc = root.find('roCreate')
    first = [c.tag for c in rc].index('story')
    for k in range(fill):
        rc.insert(first + k, gen.plain_story(f'F{k:03d}'))
    ro_xml = B.tostring(root)
    for _label, msg_xml in gen.enum_story_messages(sids, max_sources=max_sources):
        mod.record(col, eval_step({'ro_xml': ro_xml, 'msg_xml': msg_xml}))
    col.scopes.append(f'story-level on a long running order: {fill} filler stories + n={n} addressed stories '
                      f'(child indices > 256), every message kind x every ordered source tuple (<= {max_sources}) x every target')
    col.classes['long-running-order(>256 children)'] += 1
    return col


@with_logging_config
def shard_enum_item(args):
    """Exhaustive item-level scope: one (m items, paragraph layout) cell; a second
    story carries the same item IDs; the addressed story is first / last."""
    from . import gen, build as B
    modname, m, playout, max_sources, addressed_pos, story_refs = args
    mod = _mod(modname)
    col = Collector(mod.PROP)
    iids = [f'I{i}' for i in range(m)]

    def mk(sid, its):
        body = []
        for k, i in enumerate(its):
            if playout in ('p-before-each', 'mixed') and (playout != 'mixed' or k % 2 == 0):
                body.append(B.P(f'para {k}'))
            body.append(B.mk_item(i, slug=f'slug {sid}/{i}'))
        if playout in ('trailing-p', 'mixed'):
            body.append(B.P('trailing'))
        if playout == 'twin-items' and its:
            # ahead of the real items: items whose IDs only look like the last item's ID, and a
            # <storyItem> / foreign-namespace <item> carrying that very ID
            last = its[-1]
            ns_ = '{urn:other-vendor}'
            body[0:0] = [B.mk_item(gen._twin(last, 1), slug='zero-width space'), B.mk_item(gen._twin(last, 3), slug='bom'),
                         B.E('storyItem', B.T('itemID', last), B.T('itemSlug', 'not an item')),
                         B.E(ns_ + 'item', B.E(ns_ + 'itemID', text=last))]
        if playout == 'anon-item':
            # an item whose itemID tag is empty, second in line: no reference can name it
            anon = B.mk_item('x', slug='anonymous')
            anon.find('itemID').text = None
            body.insert(min(1, len(body)), anon)
        st_ = B.mk_story(sid, slug=f'slug {sid}', timing=B.timing_block({'StoryDuration': '5'}), body=body)
        if playout == 'id-last':
            # the storyID (and the rest of the head) after the items: an item is child 0
            head = [c for c in st_ if c.tag not in ('p', 'item')]
            for h in head:
                st_.remove(h)
                st_.append(h)
        return st_
    other = mk('OTHER', iids)
    target = mk('TGT', iids)
    stories = [target, other] if addressed_pos == 0 else [other, target]
    rc = B.ro_create('RO1', [B.T('roMeta0', 'm')] + stories)
    ro_xml = B.tostring(B.envelope(rc, 1000))
    for _label, msg_xml in gen.enum_item_messages('TGT', iids, max_sources=max_sources,
                                                  story_refs=story_refs):
        mod.record(col, eval_step({'ro_xml': ro_xml, 'msg_xml': msg_xml}))
    col.scopes.append(f'item-level: m={m} items, paragraphs={playout}, addressed story at '
                      f'{addressed_pos}, story refs={story_refs or ["TGT"]}, every message kind x every '
                      f'ordered source tuple (<= {max_sources}) x every reference')
    return col


@with_logging_config
def shard_hyp_steps(args):
    """Hypothesis single steps: one shard."""
    from . import gen
    modname, n, seed, kw = args
    mod = _mod(modname)
    col = Collector(mod.PROP)
    run_given(gen.step_case(**kw), lambda case: mod.record(col, eval_step(case)), n, seed)
    return col


@with_logging_config
def shard_enum_stale(args):
    """Directed three-step histories on one live running order: (1) a message of some
    kind, (2) a one-for-one replacement of a story / item by one with a NEW id (the
    element count does not change), (3) every message shape in which the unknown ID is
    the *stale* ID of the element replaced in step 2.  Every step is judged."""
    from . import gen, build as B, history
    import warnings
    from mosromgr.mostypes import RunningOrder, MosFile
    modname, level, first_kind_index, max_sources = args
    mod = _mod(modname)
    col = Collector(mod.PROP)

    def env(body, mid):
        return B.tostring(B.envelope(body, mid))
    sids = ['S0', 'S1', 'S2', 'S3']
    iids = ['I0', 'I1', 'I2']
    ro_xml = gen.ro_with_layout(sids, 'mixed', items_for={'S1': iids, 'S2': iids})
    if level == 'story':
        firsts = [B.ea_story_move('RO1', 'S0', ['S3']), B.story_move('RO1', ['S3', 'S0']),
                  B.ea_story_swap('RO1', 'S0', 'S3'), B.ea_story_delete('RO1', ['ZZ']),
                  B.story_delete('RO1', ['ZZ']), B.story_send('RO1', 'S0', body=[B.P('x')]),
                  B.ea_story_insert('RO1', 'S0', [gen.plain_story('N7')]),
                  B.story_insert('RO1', 'S0', [gen.plain_story('N8')]),
                  B.ea_story_replace('RO1', 'S3', [gen.plain_story('S3', ['J5'])]),
                  B.story_replace('RO1', 'S3', [gen.plain_story('S3', ['J6'])]),
                  B.ready_to_air('RO1')]
        repls = [B.story_replace('RO1', 'S1', [gen.plain_story('R1', ['J0'])]),
                 B.ea_story_replace('RO1', 'S1', [gen.plain_story('R1', ['J0'])])]
    else:
        firsts = [B.ea_item_move('RO1', 'S1', 'I0', ['I2']), B.item_move_multiple('RO1', 'S1', ['I2', 'I0']),
                  B.ea_item_swap('RO1', 'S1', 'I0', 'I2'), B.ea_item_delete('RO1', 'S1', ['ZZ']),
                  B.item_delete('RO1', 'S1', ['ZZ']), B.item_insert('RO1', 'S1', 'I0', [B.mk_item('J7')]),
                  B.ea_item_insert('RO1', 'S1', 'I0', [B.mk_item('J8')]),
                  B.ea_item_replace('RO1', 'S1', 'I2', [B.mk_item('I2', slug='v2')]), B.ready_to_air('RO1')]
        repls = [B.item_replace('RO1', 'S1', 'I1', [B.mk_item('R1', slug='new')]),
                 B.ea_item_replace('RO1', 'S1', 'I1', [B.mk_item('R1', slug='new')])]
    first = firsts[first_kind_index % len(firsts)]
    for repl in repls:
        m1, m2 = env(first, 1500), env(repl, 1600)
        base = RunningOrder.from_string(ro_xml)
        hist = [ro_xml]
        for mx in (m1, m2):
            ev = history.live_step(base, mx, hist)
            hist.append(mx)
            mod.record(col, ev)
        reached = str(base)
        state = xmlcmp.state_of(ET.fromstring(reached))
        if level == 'story':
            cur = [s for s, _ in state]
            msgs = gen.enum_story_messages(cur[:4], max_sources=max_sources, unknown='S1')
        else:
            cur = dict(state).get('S1', [])
            msgs = gen.enum_item_messages('S1', cur[:4], max_sources=max_sources, unknown='I1')
        for _label, m3 in msgs:
            # a fresh object replays steps 1-2 so that every third step starts from the same history
            ro = RunningOrder.from_string(ro_xml)
            with warnings.catch_warnings():
                warnings.simplefilter('ignore')
                for mx in (m1, m2):
                    try:
                        ro += MosFile.from_string(mx)
                    except Exception:
                        pass
            ev = history.live_step(ro, m3, hist)
            mod.record(col, ev)
            col.classes['stale-reference-history'] += 1
    col.scopes.append(f'stale references ({level} level): first message #{first_kind_index}, one-for-one replacement '
                      f'by a new ID (plain and roElementAction), then every message shape with the stale ID as the unknown one')
    return col
