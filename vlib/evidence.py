"""Evidence writer (schema /root/.vp/EVIDENCE.schema.json)."""
import json
import os
import sys

from . import env

# runs against a scratch copy (sensitivity / seeded-change runs) must not overwrite
# the committed evidence, which has to come from /repo itself
EVID_DIR = (os.path.join(env.VERIF_DIR, 'evidence') if env.REPO_DIR == '/repo'
            else os.path.join(env.WORK_DIR, 'evidence-scratch'))


def versions():
    import hypothesis
    v = {'python': sys.version.split()[0], 'hypothesis': hypothesis.__version__}
    try:
        import atheris  # noqa
        v['atheris'] = getattr(atheris, '__version__', 'present')
    except Exception:
        pass
    return v


def _trim(obj, limit=6000):
    s = json.dumps(obj, default=str)
    if len(s) <= limit:
        return obj
    if isinstance(obj, dict):
        return {k: (v if len(json.dumps(v, default=str)) < 1500
                    else json.dumps(v, default=str)[:1500] + '...<trimmed>')
                for k, v in obj.items()}
    return s[:limit] + '...<trimmed>'


def write(prop, tier, seed, col, rule, assumptions, wall_s, violations, known_seen,
          mandatory=(), extra=None):
    env.ensure_dir(EVID_DIR)
    cov = {
        'evaluations': int(col.evaluations),
        'distinct_nontrivial': int(len(col.nontrivial)),
        'rule': rule,
        'samples': [_trim(s) for s in col.samples[:8]],
        'classes': dict(sorted(col.classes.items())),
        'mandatory_classes': {c: int(col.classes.get(c, 0)) for c in mandatory},
        'exhaustive_scopes': col.scopes,
        'exhaustive': False,
        'excluded_by_construction': dict(col.excluded),
        'known_findings_seen': known_seen,
        'failure_signatures': {s: f['count'] for s, f in sorted(col.failures.items())},
        'inconclusive': col.inconclusive,
        'notes': col.notes,
        'engine_versions': versions(),
        'repo_dir': env.REPO_DIR,
    }
    if extra:
        cov.update(extra)
    doc = {
        'property_id': prop, 'tier': tier, 'seed': int(seed), 'level': 'exploration',
        'coverage': cov, 'assumptions': list(assumptions),
        'wall_s': round(float(wall_s), 3), 'violations': int(violations),
    }
    path = os.path.join(EVID_DIR, f'{prop}.json')
    tmp = path + '.tmp'
    with open(tmp, 'w') as f:
        json.dump(doc, f, indent=1, default=str)
    os.replace(tmp, path)
    return path
