"""Execute one merge step against the real library and judge it.

run_step(ro_xml, msg_xml) -> Obs     (the only place where `ro += msg` happens for
                                       single-step checks)
judge_*(case, obs, ex, msg)  -> list of Failure (empty = property held on the case)
"""
import traceback
import warnings
from collections import Counter
from xml.etree import ElementTree as ET

from . import env  # noqa: F401  (sys.path bootstrap)
from . import model, xmlcmp
from .xmlcmp import canon, story_id, item_id

import mosromgr.exc as mexc
from mosromgr.mostypes import MosFile, RunningOrder

MOSROMGR_WARNING = mexc.MosRoMgrWarning


class Obs:
    __slots__ = ('before', 'after', 'exc', 'exc_type', 'exc_is_merge', 'exc_is_mos',
                 'exc_site', 'warns', 'other_warns', 'msg_before', 'msg_after',
                 'cls_name', 'ro', 'msg', 'parse_exc', 'returned')

    def asdict(self):
        return {
            'exception': self.exc_type, 'exception_site': self.exc_site,
            'warnings': sorted(self.warns.elements()),
            'message_class': self.cls_name,
            'after_story_ids': (xmlcmp.story_ids(ET.fromstring(self.after))
                                if self.after else None),
        }


def innermost_site(tb):
    """(file:function:line) of the innermost frame inside the mosromgr package."""
    site = None
    for fr in traceback.extract_tb(tb):
        fn = fr.filename.replace('\\', '/')
        if '/mosromgr/' in fn:
            site = f"{fn.split('/mosromgr/')[-1]}:{fr.name}"
    return site or 'outside-mosromgr'


def classify_exc(e):
    return (type(e).__name__, isinstance(e, mexc.MosMergeError),
            isinstance(e, mexc.MosRoMgrException), innermost_site(e.__traceback__))


def run_step(ro_xml, msg_xml, ro_obj=None, msg_obj=None, filt='always', via_merge=False):
    """Parse both documents with the library and perform `ro += msg`.
    ro_obj / msg_obj allow re-use of live objects (histories)."""
    o = Obs()
    o.exc = o.exc_type = o.exc_site = o.parse_exc = None
    o.exc_is_merge = o.exc_is_mos = False
    o.warns = Counter()
    o.other_warns = []
    o.after = None
    o.returned = None
    o.cls_name = None
    with warnings.catch_warnings(record=True) as rec:
        warnings.simplefilter(filt)
        try:
            ro = ro_obj if ro_obj is not None else RunningOrder.from_string(ro_xml)
            msg = msg_obj if msg_obj is not None else MosFile.from_string(msg_xml)
        except Exception as e:  # classification failure: reported through parse_exc
            o.parse_exc = classify_exc(e)
            o.before = ro_xml
            o.ro = o.msg = None
            o.msg_before = o.msg_after = None
            return o
        o.ro, o.msg = ro, msg
        o.cls_name = type(msg).__name__
        o.before = str(ro)
        o.msg_before = str(msg)
        try:
            the_ro = ro
            if via_merge and not ro.completed:
                # the other documented route: msg.merge(ro) (what `+` calls after its completed guard)
                res = msg.merge(ro)
            else:
                ro += msg
                res = ro
            # what the operation handed back: `ro += msg` rebinds the caller's name to it
            o.returned = 'the running order' if res is the_ro else type(res).__name__
            ro = the_ro
        except Exception as e:
            o.exc = e
            o.exc_type, o.exc_is_merge, o.exc_is_mos, o.exc_site = classify_exc(e)
        o.ro = ro
        o.after = str(ro)
        o.msg_after = str(msg)
    for w in rec:
        if issubclass(w.category, MOSROMGR_WARNING):
            o.warns[w.category.__name__] += 1
        else:
            o.other_warns.append((w.category.__name__, str(w.message)))
    return o


class Failure:
    """One judged violation: signature (root-cause sized), human message."""
    __slots__ = ('prop', 'sig', 'detail', 'expected', 'observed')

    def __init__(self, prop, sig, detail, expected=None, observed=None):
        self.prop, self.sig, self.detail = prop, sig, detail
        self.expected, self.observed = expected, observed


def _state(text):
    return xmlcmp.state_of(ET.fromstring(text))


def warns_match(obs_warns, out):
    """required <= observed <= required + optional, no foreign categories."""
    for cat in set(obs_warns) | set(out.warns) | set(out.opt_warns):
        n = obs_warns.get(cat, 0)
        if n < out.warns.get(cat, 0) or n > out.warns.get(cat, 0) + out.opt_warns.get(cat, 0):
            return False
    return True


def pos_tag(ex):
    """Compact configuration class for signatures."""
    for c in ('swap-self', 'source=target', 'target-in-sources', 'ref-in-sources',
              'repeated-source', 'swap-first-operand-later', 'swap-adjacent',
              'sources-both-sides', 'forward-move', 'target=end', 'backward-move',
              'resend-kth', 'resend-first', 'multi-id-delete', 'duplicate-skipped',
              'multi-story-insert', 'multi-story-replace', 'multi-item-insert',
              'multi-item-replace', 'ref-blank=end'):
        if c in ex.classes:
            return c
    return ex.classes[0] if ex.classes else 'plain'


# ------------------------------------------------------------------ C01 / C02

def judge_order(prop, level, obs, ex, m, before_state):
    """C01 (level='story') / C02 (level='item'): sequence after the merge."""
    fails = []
    if m.level != level or obs.parse_exc:
        return fails
    after = _state(obs.after)
    if level == 'story':
        seq_b = [s for s, _ in before_state]
        seq_a = [s for s, _ in after]
    else:
        # all item ids of all stories, as (story, item) pairs: items must not
        # leak between or vanish from stories either
        seq_b = [(s, i) for s, its in before_state for i in its]
        seq_a = [(s, i) for s, its in after for i in its]
    if ex.conserve and Counter(seq_a) != Counter(seq_b):
        fails.append(Failure(
            prop, f'{prop}|{m.kind}|{pos_tag(ex)}|not-conserved',
            f'{m.kind} added or lost a {level}: before {seq_b} after {seq_a} '
            f'(exception {obs.exc_type})', sorted(map(str, seq_b)), sorted(map(str, seq_a))))
        return fails
    if not ex.resolves or ex.degenerate:
        return fails
    oks = [o for o in ex.allowed if o.kind == 'ok']
    if obs.exc is not None:
        fails.append(Failure(
            prop, f'{prop}|{m.kind}|{pos_tag(ex)}|raised-{obs.exc_type}',
            f'{m.kind} with resolvable references raised {obs.exc_type}: {obs.exc}',
            [o.describe() for o in oks], obs.exc_type))
        return fails
    if level == 'story':
        exp = [o.story_seq() for o in oks]
        got = [s for s, _ in after]
    else:
        a = ex.addressed
        exp = [dict(o.state).get(a) for o in oks]
        got = dict(after).get(a)
    if got not in exp:
        fails.append(Failure(
            prop, f'{prop}|{m.kind}|{pos_tag(ex)}|wrong-order',
            f'{m.kind}: {level} sequence after merge {got}, protocol says {exp}',
            exp, got))
    return fails


# ------------------------------------------------------------------------ C06

def judge_reporting(obs, ex, m, before_state):
    """C06: nothing named is skipped silently; fully applied => no warning."""
    fails = []
    if m.level == 'meta' and not obs.parse_exc and obs.exc is None and obs.warns:
        # roMetadataReplace / roReplace / roReadyToAir / roDelete name no story or item:
        # when they are applied nothing can be "not found"
        return [Failure('C06', f'C06|{m.kind}|fully-applied|unexpected-warning',
                        f'{m.kind} was applied but emitted {dict(obs.warns)}', {}, dict(obs.warns))]
    if m.level not in ('story', 'item') or obs.parse_exc or ex.degenerate or not ex.allowed:
        return fails
    if obs.exc is not None:
        if obs.exc_is_merge:
            return fails        # raising MosMergeError is always an admissible way to report
        return [Failure('C06', f'C06|{m.kind}|{pos_tag(ex)}|raised-{obs.exc_type}',
                        f'{m.kind}: neither applied, nor MosMergeError, nor a warning: {obs.exc_type} '
                        f'at {obs.exc_site}: {obs.exc}', 'MosMergeError or warnings', obs.exc_type)]
    # C06 is about *whether* each named element was acted upon and reported, not
    # about positions (C01/C02): states are compared as multisets
    def unordered(st):
        return sorted((str(s), sorted(map(str, its))) for s, its in st)
    after = _state(obs.after)
    ua = unordered(after)
    oks = [o for o in ex.allowed if o.kind == 'ok']
    for o in oks:
        if unordered(o.state) == ua and warns_match(obs.warns, o):
            return fails
    state_ok = any(unordered(o.state) == ua for o in oks)
    mode = 'wrong-warnings' if state_ok else (
        'not-applied' if any(warns_match(obs.warns, o) for o in oks) else 'not-applied-and-wrong-warnings')
    if not oks:
        mode = 'silent' if not obs.warns else 'warned-instead-of-error'
    fails.append(Failure(
        'C06', f'C06|{m.kind}|{pos_tag(ex)}|{mode}',
        f'{m.kind}: after merge state={after} warnings={dict(obs.warns)}; allowed: '
        f'{[o.describe() for o in ex.allowed]}',
        [o.describe() for o in ex.allowed],
        {'state': after, 'warnings': dict(obs.warns)}))
    return fails


# ------------------------------------------------------------------------ C05

def judge_atomic(obs, m):
    if obs.parse_exc or obs.exc is None:
        return []
    if obs.after == obs.before:
        return []
    return [Failure('C05', f'C05|{m.kind or obs.cls_name}|{obs.exc_type}|changed-after-raise',
                    f'{obs.cls_name} raised {obs.exc_type} ({obs.exc}) but the running order changed',
                    obs.before, obs.after)]


# ------------------------------------------------------------------------ C12

def judge_contained(obs, m):
    if obs.parse_exc:
        name, is_merge, is_mos, site = obs.parse_exc
        if is_mos:
            return []
        return [Failure('C12', f'C12|classify|{name}|{site}',
                        f'classification raised {name} at {site}', 'MosRoMgrException', name)]
    if obs.exc is None or obs.exc_is_merge:
        return []
    return [Failure('C12', f'C12|{obs.cls_name}|{obs.exc_type}|{obs.exc_site}',
                    f'`ro += {obs.cls_name}` raised {obs.exc_type} at {obs.exc_site}: {obs.exc}',
                    'MosMergeError or success', obs.exc_type)]


# ------------------------------------------------------------------------ C03

def _lay(x):
    return '' if (x is None or not x.strip()) else x


def _named_sets(m, ex, existing=()):
    """IDs the message names, per side.  Returns (level, before_named, after_named,
    moved) where *_named are sets of IDs whose elements are excluded from the frame
    on that side and moved are IDs whose elements must themselves be unchanged."""
    k = m.kind
    src = set(m.source_ids())
    pay = set(x for x in m.payload_ids() if x is not None)
    tgt = m.target[1] if (m.target and m.target[0] == 'id') else None
    if k in ('StoryAppend', 'StoryInsert', 'EAStoryInsert'):
        # a carried story whose ID already exists is a duplicate that inserts skip:
        # the existing story is not named by the message
        return set(), pay - set(existing), set()
    if k in ('StoryReplace', 'EAStoryReplace'):
        # a carried story whose ID another story already has names that story too (whether it is
        # kept, skipped or doubled is not prescribed): the frame is what the message does not name
        return ({tgt} if tgt else set()) | (pay & set(existing)), pay | ({tgt} if tgt else set()), set()
    if k == 'StorySend':
        sid = m.story_ref[1] if m.story_ref[0] == 'id' else None
        return ({sid} if sid else set()), ({sid} if sid else set()) | pay, set()
    if k in ('StoryDelete', 'EAStoryDelete', 'ItemDelete', 'EAItemDelete'):
        return src, src, set()
    if k in ('StoryMove', 'EAStoryMove', 'EAStorySwap', 'ItemMoveMultiple', 'EAItemMove', 'EAItemSwap'):
        return src, src, src
    if k in ('ItemInsert', 'EAItemInsert'):
        return set(), pay - set(existing), set()
    if k in ('ItemReplace', 'EAItemReplace'):
        return ({tgt} if tgt else set()), pay | ({tgt} if tgt else set()), set()
    return set(), set(), set()


def _frame(parent, tag, idfn, named):
    return [(canon(c), _lay(c.tail)) for c in parent
            if not (c.tag == tag and idfn(c) in named)]


def _frame_diff(fb, fa):
    if fb == fa:
        return None
    if len(fb) != len(fa):
        return f'{len(fb)} un-named children before, {len(fa)} after: ' \
               f'{[c[0][0] for c in fb]} vs {[c[0][0] for c in fa]}'
    for i, (b, a) in enumerate(zip(fb, fa)):
        if b != a:
            if b[0] != a[0]:
                return f'un-named child #{i}: ' + (xmlcmp.first_diff(b[0], a[0]) or '?')
            return f'un-named child #{i} <{b[0][0]}> tail {b[1]!r} != {a[1]!r}'
    return 'differs'


def judge_frame(obs, ex, m):
    """C03: everything the message does not name is preserved (content + order)."""
    if obs.parse_exc or m.kind is None:
        return []
    rb, ra = ET.fromstring(obs.before), ET.fromstring(obs.after)
    rcb, rca = rb.find('roCreate'), ra.find('roCreate')
    k = m.kind
    fails = []

    def fail(mode, detail):
        fails.append(Failure('C03', f'C03|{k}|{ref_shape(m, ex)}|{mode}', f'{k}: {detail}'))

    # the envelope (children of the root other than roCreate / completion record)
    envb = [(canon(c), _lay(c.tail)) for c in rb if c.tag not in ('roCreate', 'mosromgrmeta')]
    enva = [(canon(c), _lay(c.tail)) for c in ra if c.tag not in ('roCreate', 'mosromgrmeta')]
    if envb != enva or rb.attrib != ra.attrib:
        fail('envelope-changed', _frame_diff(envb, enva) or 'root attributes changed')
    if rcb is not None and rca is None:
        fail('roCreate-gone', 'the running order has no roCreate element after the merge')
        return fails
    if k == 'RunningOrderReplace' or rcb is None:
        return fails
    if canon(rcb) == canon(rca):
        return fails            # nothing at all changed: nothing un-named changed
    if k in ('ReadyToAir', 'RunningOrderEnd'):
        if canon(rcb) != canon(rca):
            fail('content-changed', xmlcmp.first_diff(canon(rcb), canon(rca)))
        return fails
    if k == 'MetaDataReplace':
        carried = list(m.base)
        tags = {c.tag for c in carried if c.tag != 'mosExternalMetadata'}
        schemas = {xmlcmp.child_text(c, 'mosSchema')[1] for c in carried
                   if c.tag == 'mosExternalMetadata'}

        def named_b(c):
            if c.tag == 'mosExternalMetadata':
                return xmlcmp.child_text(c, 'mosSchema')[1] in schemas
            return c.tag in tags
        fb = [(canon(c), _lay(c.tail)) for c in rcb if not named_b(c)]
        # after: drop one child per carried element that equals it, then the rest
        # must be the un-named children of before, in order
        remaining = [canon(c) for c in carried]
        fa = []
        for c in rca:
            cc = canon(c)
            if cc in remaining and named_b(c):
                remaining.remove(cc)
                continue
            fa.append((cc, _lay(c.tail)))
        d = _frame_diff(fb, fa)
        if d:
            fail('collateral', d)
        return fails

    if m.level == 'story':
        existing = [story_id(c) for c in rcb if c.tag == 'story']
        if k == 'StoryAppend' and set(existing) & set(m.payload_ids()):
            return fails        # duplicate story IDs: outside the stated domain
    else:
        sb0 = xmlcmp.find_story(rb, ex.addressed) if ex.addressed else None
        existing = [item_id(c) for c in sb0 if c.tag == 'item'] if sb0 is not None else []
    nb, na, moved = _named_sets(m, ex, existing)
    if m.level == 'story':
        fb = _frame(rcb, 'story', story_id, nb)
        fa = _frame(rca, 'story', story_id, na)
        d = _frame_diff(fb, fa)
        if d:
            fail('collateral', d)
        for sid in moved:
            sb, sa = xmlcmp.find_story(rb, sid), xmlcmp.find_story(ra, sid)
            if sb is not None and sa is not None and canon(sb) != canon(sa):
                fail('moved-element-altered', xmlcmp.first_diff(canon(sb), canon(sa)))
        return fails
    if m.level == 'item':
        addressed = ex.addressed
        # every child of roCreate except the addressed story
        fb = _frame(rcb, 'story', story_id, {addressed} if addressed else set())
        fa = _frame(rca, 'story', story_id, {addressed} if addressed else set())
        d = _frame_diff(fb, fa)
        if d:
            fail('collateral-outside-story', d)
        if addressed is not None:
            sb, sa = xmlcmp.find_story(rb, addressed), xmlcmp.find_story(ra, addressed)
            if sa is None or sb is None:
                fail('addressed-story-lost', f'story {addressed!r} missing after merge')
                return fails
            if (sb.tag, sb.attrib, sb.text) != (sa.tag, sa.attrib, sa.text):
                fail('collateral-in-story', 'story element attributes/text changed')
            d = _frame_diff(_frame(sb, 'item', item_id, nb), _frame(sa, 'item', item_id, na))
            if d:
                fail('collateral-in-story', d)
            for iid in moved:
                ib = [c for c in sb if c.tag == 'item' and item_id(c) == iid]
                ia = [c for c in sa if c.tag == 'item' and item_id(c) == iid]
                if len(ib) == 1 and len(ia) == 1 and canon(ib[0]) != canon(ia[0]):
                    fail('moved-element-altered', xmlcmp.first_diff(canon(ib[0]), canon(ia[0])))
    return fails


def ref_shape(m, ex):
    """Reference-shape class for C03 signatures."""
    parts = []
    for name, r in (('story', m.story_ref), ('target', m.target)):
        if r is not None:
            parts.append(f'{name}:{r[0]}')
    bad = [t for t, _ in m.sources if t != 'id']
    if bad:
        parts.append('source:' + bad[0])
    if not ex.resolves and not ex.degenerate:
        parts.append('unresolved')
    return ','.join(parts) or 'plain'


# ------------------------------------------------------------------------ C04

def judge_payload(obs, ex, m):
    """C04: carried stories / items / metadata arrive intact."""
    if obs.parse_exc or obs.exc is not None or m.kind not in model.PAYLOAD_KINDS:
        return []
    ra = ET.fromstring(obs.after)
    rca = ra.find('roCreate')
    k = m.kind
    fails = []

    def fail(mode, detail):
        fails.append(Failure('C04', f'C04|{k}|{mode}', f'{k}: {detail}'))

    if k == 'RunningOrderReplace':
        sent = canon(m.base)
        got = canon(rca)
        if sent[1:] != got[1:]:
            fail('ro-content-differs', xmlcmp.first_diff(('roCreate',) + sent[1:], got))
        return fails
    if k == 'MetaDataReplace':
        have = [canon(c) for c in rca]
        keys = [(c.tag, xmlcmp.child_text(c, 'mosSchema')[1] if c.tag == 'mosExternalMetadata' else None)
                for c in m.base if c.tag != 'roID']
        if len(set(keys)) < len(keys):
            return fails        # two carried elements name the same slot: which one stays is unspecified
        for c in m.base:
            if c.tag == 'roID':
                continue            # identifies the running order, not metadata to copy
            cc = canon(c)
            if cc in have:
                have.remove(cc)
            else:
                fail('metadata-missing', f'carried <{c.tag}> not present with the sent content')
        return fails
    if not ex.resolves or ex.degenerate:
        return fails
    # a carried story whose ID already exists is skipped by inserts (C06)
    ok_warn_dup = m.kind in ('StoryInsert', 'EAStoryInsert')
    if m.level == 'story':
        sids_before = set(xmlcmp.story_ids(ET.fromstring(obs.before)))
        for p in m.payload:
            pid = story_id(p)
            if ok_warn_dup and pid in sids_before:
                continue
            got = [s for s in xmlcmp.story_elems(ra) if story_id(s) == pid]
            if len(got) != 1:
                fail('carried-story-missing', f'story {pid!r} present {len(got)} times after merge')
                continue
            if canon(got[0]) != canon(p):
                fail('carried-story-altered', xmlcmp.first_diff(canon(p), canon(got[0])))
    else:
        st = xmlcmp.find_story(ra, ex.addressed)
        if st is None:
            fail('addressed-story-lost', 'addressed story missing')
            return fails
        for p in m.payload:
            pid = item_id(p)
            got = [i for i in st if i.tag == 'item' and item_id(i) == pid]
            if len(got) != 1:
                fail('carried-item-missing', f'item {pid!r} present {len(got)} times after merge')
                continue
            if canon(got[0]) != canon(p):
                fail('carried-item-altered', xmlcmp.first_diff(canon(p), canon(got[0])))
    return fails
