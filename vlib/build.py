"""Builders for MOS documents (running orders and the 26 message shapes).

Everything is built with xml.etree and serialised to text; the library only ever
sees the text.  A *reference* argument (`ref`) is one of:
    'SOMEID'  -> <storyID>SOMEID</storyID>
    ''        -> <storyID/>            (blank tag)
    None      -> tag absent            (missing tag)
"""
import copy
from xml.etree import ElementTree as ET

PLAIN_KINDS = [
    'roStorySend', 'roStoryAppend', 'roStoryDelete', 'roStoryInsert',
    'roStoryMove', 'roStoryReplace', 'roItemDelete', 'roItemInsert',
    'roItemMoveMultiple', 'roItemReplace', 'roReplace', 'roMetadataReplace',
    'roReadyToAir', 'roDelete',
]
EA_KINDS = [
    'EAStoryReplace', 'EAItemReplace', 'EAStoryDelete', 'EAItemDelete',
    'EAStoryInsert', 'EAItemInsert', 'EAStorySwap', 'EAItemSwap',
    'EAStoryMove', 'EAItemMove',
]
ALL_KINDS = PLAIN_KINDS + EA_KINDS

# message tag -> library class name
TAG_CLASS = {
    'roCreate': 'RunningOrder', 'roStorySend': 'StorySend',
    'roStoryAppend': 'StoryAppend', 'roStoryDelete': 'StoryDelete',
    'roStoryInsert': 'StoryInsert', 'roStoryMove': 'StoryMove',
    'roStoryReplace': 'StoryReplace', 'roItemDelete': 'ItemDelete',
    'roItemInsert': 'ItemInsert', 'roItemMoveMultiple': 'ItemMoveMultiple',
    'roItemReplace': 'ItemReplace', 'roReplace': 'RunningOrderReplace',
    'roMetadataReplace': 'MetaDataReplace', 'roReadyToAir': 'ReadyToAir',
    'roDelete': 'RunningOrderEnd',
}
# (operation, target has direct itemID, source has direct itemID) -> class name
EA_TABLE = {
    ('REPLACE', False, False): 'EAStoryReplace',
    ('REPLACE', True, False): 'EAItemReplace',
    ('DELETE', False, False): 'EAStoryDelete',
    ('DELETE', False, True): 'EAItemDelete',
    ('INSERT', False, False): 'EAStoryInsert',
    ('INSERT', True, False): 'EAItemInsert',
    ('SWAP', False, False): 'EAStorySwap',
    ('SWAP', False, True): 'EAItemSwap',
    ('MOVE', False, False): 'EAStoryMove',
    ('MOVE', True, True): 'EAItemMove',
}


def E(tag, *children, text=None, tail=None, attrib=None):
    e = ET.Element(tag, dict(attrib or {}))
    e.text = text
    e.tail = tail
    for c in children:
        if c is not None:
            e.append(c)
    return e


def T(tag, text, **kw):
    return E(tag, text=text, **kw)


def ref_elem(tag, ref):
    """None -> no element; '' -> blank tag; str -> tag with that text."""
    if ref is None:
        return None
    return E(tag, text=(ref if ref != '' else None))


def from_spec(spec):
    """Generic node spec (tag, attrib, text, children, tail) -> Element."""
    tag, attrib, text, children, tail = spec
    e = ET.Element(tag, dict(attrib))
    e.text = text
    e.tail = tail
    for c in children:
        e.append(from_spec(c))
    return e


def tostring(root, pretty=False):
    if pretty:
        root = copy.deepcopy(root)
        ET.indent(root, space='  ')
    return ET.tostring(root, encoding='unicode')


# ---------------------------------------------------------------- elements

def timing_block(fields, payload=True, extra=None):
    """fields: dict of StoryDuration/TextTime/MediaTime/StoryStarted/StoryEnded
    -> text.  payload False -> mosExternalMetadata without a mosPayload."""
    md = E('mosExternalMetadata')
    md.append(T('mosSchema', 'http://example.com/story-schema'))
    if payload:
        p = E('mosPayload')
        for k, v in fields.items():
            p.append(T(k, v))
        for x in (extra or []):
            p.append(x)
        md.append(p)
    return md


def mk_item(iid, slug=None, obj_id=None, mos_id=None, obj_type=None, note=None,
            extras=(), id_first=True, md_payload=True):
    it = E('item')
    idtag = T('itemID', iid if iid != '' else None) if iid is not None else None
    if id_first and idtag is not None:
        it.append(idtag)
    if slug is not None:
        it.append(T('itemSlug', slug or None))
    if obj_id is not None:
        it.append(T('objID', obj_id or None))
    if mos_id is not None:
        it.append(T('mosID', mos_id or None))
    if obj_type is not None:
        it.append(T('objType', obj_type or None))
    if not id_first and idtag is not None:
        it.append(idtag)
    if note is not None:
        md = E('mosExternalMetadata')
        if md_payload:
            kind, text = note
            if kind == 'note':
                md.append(E('mosPayload', E('studioCommand', T('text', text),
                                            attrib={'type': 'note'})))
            elif kind == 'nested':
                md.append(E('mosPayload', E('wrapper', E(
                    'studioCommand', T('text', text), attrib={'type': 'note'}))))
            elif kind == 'note-no-text':
                md.append(E('mosPayload', E('studioCommand', attrib={'type': 'note'})))
            elif kind == 'other':
                md.append(E('mosPayload', E('studioCommand', T('text', text),
                                            attrib={'type': 'cue'})))
            elif kind == 'untyped-first':
                # a studioCommand without a type attribute ahead of the note
                md.append(E('mosPayload', E('studioCommand', T('text', 'no type')),
                            E('studioCommand', T('text', text), attrib={'type': 'note'})))
            else:
                md.append(E('mosPayload'))
        it.append(md)
    for x in extras:
        it.append(x)
    return it


def mk_story(sid, slug=None, num=None, timing=None, body=(), extras_before=(),
             id_pos=0, tag='story'):
    """body: sequence of Elements (p / item / anything) in order.
    timing: None or an Element (mosExternalMetadata)."""
    st = E(tag)
    head = []
    if slug is not None:
        head.append(T('storySlug', slug))
    if num is not None:
        head.append(T('storyNum', num))
    for x in extras_before:
        head.append(x)
    if timing is not None:
        head.append(timing)
    if sid is not None:
        idtag = T('storyID', sid if sid != '' else None)
        head.insert(min(id_pos, len(head)), idtag)
    for h in head:
        st.append(h)
    for b in body:
        st.append(b)
    return st


def P(text, tail=None, attrib=None):
    return E('p', text=text, tail=tail, attrib=attrib)


# ---------------------------------------------------------------- envelopes

def envelope(body, mid, mos_id='MOS ID', ncs_id=None, order=None, extras=()):
    """order: permutation of the envelope children given as a list of names from
    ['mosID','ncsID','messageID','body', 'x0', 'x1'...]; default canonical."""
    parts = {'mosID': T('mosID', mos_id), 'messageID': T('messageID', str(mid)),
             'body': body}
    if ncs_id is not None:
        parts['ncsID'] = T('ncsID', ncs_id)
    for i, x in enumerate(extras):
        parts[f'x{i}'] = x
    names = list(order) if order else ['mosID', 'ncsID', 'messageID', 'body'] + \
        [f'x{i}' for i in range(len(extras))]
    root = E('mos')
    done = set()
    for n in names:
        if n in parts and n not in done:
            root.append(parts[n])
            done.add(n)
    for n, p in parts.items():
        if n not in done:
            root.append(p)
    return root


def ro_create(ro_id, children, slug='RO SLUG', ed_start=None, tag='roCreate',
              head_extra=()):
    """children: story elements and metadata elements in the wanted order.
    ed_start: None -> absent, '' -> empty tag, str -> text."""
    rc = E(tag)
    rc.append(T('roID', ro_id))
    if slug is not None:
        rc.append(T('roSlug', slug))
    if ed_start is not None:
        rc.append(T('roEdStart', ed_start if ed_start != '' else None))
    for h in head_extra:
        rc.append(h)
    for c in children:
        rc.append(c)
    return rc


def _body(tag, ro_id, *children, attrib=None):
    b = E(tag, attrib=attrib)
    b.append(T('roID', ro_id))
    for c in children:
        if c is not None:
            b.append(c)
    return b


# ---------------------------------------------------------------- messages
# each returns the *body* element; wrap with envelope()

def story_append(ro_id, stories):
    return _body('roStoryAppend', ro_id, *stories)


def story_insert(ro_id, target, stories):
    return _body('roStoryInsert', ro_id, ref_elem('storyID', target), *stories)


def story_replace(ro_id, target, stories):
    return _body('roStoryReplace', ro_id, ref_elem('storyID', target), *stories)


def story_move(ro_id, refs):
    return _body('roStoryMove', ro_id, *[ref_elem('storyID', r) for r in refs])


def story_delete(ro_id, refs):
    return _body('roStoryDelete', ro_id, *[ref_elem('storyID', r) for r in refs])


def story_send(ro_id, sid, head=(), body=(), post=(), attrib=None, body_index=None):
    """head/post: elements around the storyBody; body: children of storyBody
    (p / storyItem / other).  body_index: position of storyBody among ALL children of
    roStorySend (0 = before roID and storyID); default: after head."""
    b = E('roStorySend', attrib=attrib)
    kids = [T('roID', ro_id)]
    sidtag = ref_elem('storyID', sid)
    if sidtag is not None:
        kids.append(sidtag)
    kids += list(head)
    sb = E('storyBody', *body)
    rest = kids + list(post)
    if body_index is None:
        body_index = len(kids)
    rest.insert(min(body_index, len(rest)), sb)
    for k in rest:
        b.append(k)
    return b


def item_insert(ro_id, story, item, items):
    return _body('roItemInsert', ro_id, ref_elem('storyID', story),
                 ref_elem('itemID', item), *items)


def item_replace(ro_id, story, item, items):
    return _body('roItemReplace', ro_id, ref_elem('storyID', story),
                 ref_elem('itemID', item), *items)


def item_move_multiple(ro_id, story, refs):
    return _body('roItemMoveMultiple', ro_id, ref_elem('storyID', story),
                 *[ref_elem('itemID', r) for r in refs])


def item_delete(ro_id, story, refs):
    return _body('roItemDelete', ro_id, ref_elem('storyID', story),
                 *[ref_elem('itemID', r) for r in refs])


def metadata_replace(ro_id, children, slug='RO SLUG'):
    return _body('roMetadataReplace', ro_id,
                 T('roSlug', slug) if slug is not None else None, *children)


def ro_replace(ro_id, children, slug='RO SLUG', ed_start=None, head_extra=()):
    return ro_create(ro_id, children, slug=slug, ed_start=ed_start,
                     tag='roReplace', head_extra=head_extra)


def ready_to_air(ro_id, air='READY'):
    return _body('roReadyToAir', ro_id, T('roAir', air))


def ro_delete(ro_id, extras=()):
    return _body('roDelete', ro_id, *extras)


def element_action(ro_id, op, target=None, source=(), ro_id_pos=0):
    """target: None (no element_target) or list of elements; source: list of
    elements (children of element_source) or None for no element_source.
    op None -> no operation attribute."""
    attrib = {} if op is None else {'operation': op}
    b = E('roElementAction', attrib=attrib)
    parts = []
    if target is not None:
        parts.append(E('element_target', *target))
    if source is not None:
        parts.append(E('element_source', *source))
    parts.insert(min(ro_id_pos, len(parts)), T('roID', ro_id))
    for p in parts:
        b.append(p)
    return b


def ea_target(story=None, item=None):
    """Children of element_target from two refs (None = tag absent)."""
    out = []
    s = ref_elem('storyID', story)
    if s is not None:
        out.append(s)
    i = ref_elem('itemID', item)
    if i is not None:
        out.append(i)
    return out


def ea_story_replace(ro_id, target, stories):
    return element_action(ro_id, 'REPLACE', ea_target(target), stories)


def ea_item_replace(ro_id, story, item, items):
    return element_action(ro_id, 'REPLACE', ea_target(story, item), items)


def ea_story_delete(ro_id, refs):
    return element_action(ro_id, 'DELETE', None,
                          [ref_elem('storyID', r) for r in refs])


def ea_item_delete(ro_id, story, refs):
    return element_action(ro_id, 'DELETE', ea_target(story),
                          [ref_elem('itemID', r) for r in refs])


def ea_story_insert(ro_id, target, stories, with_target=True):
    return element_action(ro_id, 'INSERT',
                          ea_target(target) if with_target else None, stories)


def ea_item_insert(ro_id, story, item, items):
    return element_action(ro_id, 'INSERT', ea_target(story, item), items)


def ea_story_swap(ro_id, a, b, target='absent'):
    """target: 'absent' | 'empty' (element_target with blank storyID)"""
    tgt = None if target == 'absent' else ea_target('')
    return element_action(ro_id, 'SWAP', tgt,
                          [ref_elem('storyID', a), ref_elem('storyID', b)])


def ea_item_swap(ro_id, story, a, b):
    return element_action(ro_id, 'SWAP', ea_target(story),
                          [ref_elem('itemID', a), ref_elem('itemID', b)])


def ea_story_move(ro_id, target, refs, with_target=True):
    return element_action(ro_id, 'MOVE',
                          ea_target(target) if with_target else None,
                          [ref_elem('storyID', r) for r in refs])


def ea_item_move(ro_id, story, item, refs):
    return element_action(ro_id, 'MOVE', ea_target(story, item),
                          [ref_elem('itemID', r) for r in refs])


def cdataize(xml_text, every=1):
    """The same document with (every n-th) leaf text that holds an escaped character written as a
    CDATA section instead: <storyID>P&amp;L</storyID> -> <storyID><![CDATA[P&L]]></storyID>.
    Parsers read both forms as the same text."""
    import re
    n = [0]

    def sub(m):
        body = m.group(2)
        if '&#' in body or ']]' in body or not ('&amp;' in body or '&lt;' in body or '&gt;' in body):
            return m.group(0)
        n[0] += 1
        if n[0] % every:
            return m.group(0)
        raw = body.replace('&lt;', '<').replace('&gt;', '>').replace('&quot;', '"').replace('&apos;', "'").replace('&amp;', '&')
        return f'{m.group(1)}<![CDATA[{raw}]]>{m.group(3)}'
    return re.sub(r'(<[A-Za-z][^<>/]*>)([^<>]+)(</[A-Za-z][^<>]*>)', sub, xml_text)
