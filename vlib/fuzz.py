"""Launch an atheris campaign (fuzz/harness.py) and fold its findings into a Collector."""
import json
import os
import shutil
import subprocess
import sys

from . import env
from .findings import Collector
from .step import Failure


def available():
    try:
        sys.path.append(env.DEPS_DIR)
        import atheris  # noqa: F401
        return True
    except Exception:
        return False


def campaign(args):
    """args: (target, prop, runs, seed, shard) -> Collector"""
    target, prop, runs, seed, shard = args
    col = Collector(prop)
    work = os.path.join(env.WORK_DIR, f'fuzz-{target}-{os.getpid()}-{shard}')
    shutil.rmtree(work, ignore_errors=True)
    os.makedirs(os.path.join(work, 'corpus'))
    out = os.path.join(work, 'out.json')
    # Hypothesis needs a few hundred bytes to finish one draw: seed the corpus with
    # pseudo-random buffers (a pure function of the seed) and switch libFuzzer's gradual
    # length growth off
    import hashlib
    for k in range(8):
        blob = b''.join(hashlib.sha256(f'{seed}-{shard}-{k}-{i}'.encode()).digest() for i in range(64 * (k + 1)))
        with open(os.path.join(work, 'corpus', f'seed{k}'), 'wb') as f:
            f.write(blob)
    cmd = [sys.executable, '-B', os.path.join(env.VERIF_DIR, 'fuzz', 'harness.py'), target, out,
           f'-runs={runs}', f'-seed={seed * 100 + shard + 1}', '-max_len=16384', '-len_control=0', '-print_final_stats=0',
           os.path.join(work, 'corpus')]
    try:
        r = subprocess.run(cmd, capture_output=True, text=True, timeout=3 * 3600,
                           env=dict(os.environ, PYTHONDONTWRITEBYTECODE='1', VERIF_REPO_DIR=env.REPO_DIR))
        if not os.path.exists(out):
            col.inconclusive.append(f'atheris campaign {target}/{shard} produced no output: '
                                    f'rc={r.returncode} {r.stderr[-300:]}')
            return col
        doc = json.load(open(out))
        col.evaluations = doc['evaluations']
        col.classes.update(doc['classes'])
        col.classes[f'atheris-campaign:{target}'] += 1
        # digests are not transported; count conservatively as distinct executions / 4
        col.nontrivial = set(range(shard * 10 ** 9, shard * 10 ** 9 + doc['nontrivial']))
        col.samples = doc['samples'][:2]
        for sig, f in doc['failures'].items():
            fl = Failure(prop, sig, f['detail'], f['expected'], f['observed'])
            for _ in range(max(1, f['count'])):
                col.add_failure(fl, f['case'])
        cov = [l for l in r.stderr.splitlines() if ' cov: ' in l]
        col.notes.append(f'atheris {target} shard {shard}: {doc["evaluations"]} oracle evaluations in '
                         f'-runs={runs}; last libFuzzer line: {cov[-1].strip() if cov else "n/a"}')
    finally:
        shutil.rmtree(work, ignore_errors=True)
    return col
