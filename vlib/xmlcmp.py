"""Structural view of XML, independent of mosromgr: canonical form, state
extraction (story / item ID sequences), frames ("everything except the named
elements"), and small helpers.  Only xml.etree is used here - never a library
accessor."""
import hashlib
from xml.etree import ElementTree as ET


def parse(text):
    return ET.fromstring(text)


def canon(e, with_tail=False):
    """(tag, sorted attrib, text, [(canon(child), child.tail) ...]).

    Ignorable layout whitespace is normalised away: a whitespace-only *tail*, and the
    whitespace-only *text of an element that has children* (indentation), compare equal
    to nothing.  Text of leaf elements (e.g. <p> </p>) and any tail/text with a
    non-blank character are compared exactly.  The tail of the compared root is ignored
    unless with_tail."""
    def lay(x):
        return '' if (x is None or not x.strip()) else x
    kids = tuple((canon(ch), lay(ch.tail)) for ch in e)
    text = (e.text or '') if not kids else lay(e.text)
    c = (e.tag, tuple(sorted(e.attrib.items())), text, kids)
    if with_tail:
        return (c, lay(e.tail))
    return c


def canon_ws(e):
    """canon() with whitespace-only text/tails normalised away (used when the
    same content is compared across compact and pretty-printed layouts)."""
    def norm(s):
        return '' if (s is None or not s.strip()) else s
    return (e.tag, tuple(sorted(e.attrib.items())), norm(e.text),
            tuple((canon_ws(ch), norm(ch.tail)) for ch in e))


def digest(*parts):
    h = hashlib.sha1()
    for p in parts:
        h.update(repr(p).encode('utf-8', 'backslashreplace'))
        h.update(b'\0')
    return h.hexdigest()


def child_text(e, tag):
    """Text of the first direct child `tag` -> (present, text or None)."""
    c = e.find(tag)
    if c is None:
        return (False, None)
    return (True, c.text)


def ro_create(root):
    return root.find('roCreate')


def story_elems(root):
    rc = ro_create(root)
    return [] if rc is None else [c for c in rc if c.tag == 'story']


def story_id(story):
    c = story.find('storyID')
    return None if c is None else c.text


def item_id(item):
    c = item.find('itemID')
    return None if c is None else c.text


def item_elems(story):
    return [c for c in story if c.tag == 'item']


def state_of(root):
    """[(story_id, [item_id, ...]), ...] in document order."""
    return [(story_id(s), [item_id(i) for i in item_elems(s)])
            for s in story_elems(root)]


def story_ids(root):
    return [story_id(s) for s in story_elems(root)]


def find_story(root, sid):
    for s in story_elems(root):
        if story_id(s) == sid:
            return s
    return None


def children_except(parent, named_pred):
    """[(canon(child), tail)] for the direct children of parent for which
    named_pred(child) is false."""
    return [(canon(c), c.tail or '') for c in parent if not named_pred(c)]


def first_diff(a, b, path='/'):
    """Human-readable location of the first difference of two canon() values."""
    if a == b:
        return None
    if a[0] != b[0]:
        return f'{path}: tag {a[0]!r} != {b[0]!r}'
    path = f'{path}{a[0]}'
    if a[1] != b[1]:
        return f'{path}: attrib {a[1]!r} != {b[1]!r}'
    if a[2] != b[2]:
        return f'{path}: text {a[2]!r} != {b[2]!r}'
    if len(a[3]) != len(b[3]):
        return (f'{path}: {len(a[3])} children {[c[0][0] for c in a[3]]} != '
                f'{len(b[3])} children {[c[0][0] for c in b[3]]}')
    for i, ((ca, ta), (cb, tb)) in enumerate(zip(a[3], b[3])):
        if ca != cb:
            return first_diff(ca, cb, f'{path}[{i}]/')
        if ta != tb:
            return f'{path}[{i}] tail {ta!r} != {tb!r}'
    return f'{path}: differs'
