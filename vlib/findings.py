"""Collector (collect, don't raise), known-findings matching, replay files,
greedy structural shrinking of failing cases."""
import hashlib
import json
import os
from collections import Counter
from xml.etree import ElementTree as ET

from . import env

KNOWN_PATH = os.path.join(env.VERIF_DIR, 'known_findings.json')
REPLAY_DIR = os.environ.get('VERIF_REPLAY_DIR') or os.path.join(env.VERIF_DIR, 'replays')


def h64(*parts):
    h = hashlib.blake2b(digest_size=8)
    for p in parts:
        h.update(p.encode('utf-8', 'backslashreplace') if isinstance(p, str) else repr(p).encode())
        h.update(b'\0')
    return int.from_bytes(h.digest(), 'big')


def case_size(case):
    return len(json.dumps(case, sort_keys=True, default=str))


class Collector:
    """Accumulates what a run explored.  Picklable (merged across shards)."""

    def __init__(self, prop):
        self.prop = prop
        self.evaluations = 0
        self.nontrivial = set()
        self.classes = Counter()
        self.samples = []
        self.sample_keys = set()
        self.failures = {}       # sig -> dict(case, detail, expected, observed, count)
        self.excluded = Counter()
        self.notes = []
        self.scopes = []
        self.inconclusive = []

    def record(self, case, nontrivial, classes=(), fails=(), key=None, sample=None):
        self.evaluations += 1
        for c in classes:
            self.classes[c] += 1
        if nontrivial:
            self.nontrivial.add(key if key is not None else h64(json.dumps(case, sort_keys=True, default=str)))
        for f in fails:
            self.add_failure(f, case)
        if sample is not None or (nontrivial and len(self.samples) < 6):
            skey = tuple(sorted(classes))[:3]
            if skey not in self.sample_keys and len(self.samples) < 8:
                self.sample_keys.add(skey)
                self.samples.append(sample if sample is not None else case)

    def add_failure(self, f, case):
        cur = self.failures.get(f.sig)
        size = case_size(case)
        if cur is None:
            self.failures[f.sig] = {'sig': f.sig, 'case': case, 'detail': f.detail, 'expected': f.expected,
                                    'observed': f.observed, 'count': 1, 'size': size,
                                    'prop': f.prop}
        else:
            cur['count'] += 1
            if size < cur['size']:
                cur.update(case=case, detail=f.detail, expected=f.expected,
                           observed=f.observed, size=size)

    def merge(self, other):
        self.evaluations += other.evaluations
        self.nontrivial |= other.nontrivial
        self.classes.update(other.classes)
        self.excluded.update(other.excluded)
        for s in other.samples:
            if len(self.samples) < 8 and s not in self.samples:
                self.samples.append(s)
        for sig, f in other.failures.items():
            cur = self.failures.get(sig)
            if cur is None:
                self.failures[sig] = dict(f)
            else:
                n = cur['count'] + f['count']
                if f['size'] < cur['size']:
                    cur.update(f)
                cur['count'] = n
        self.notes += [n for n in other.notes if n not in self.notes]
        self.scopes += [s for s in other.scopes if s not in self.scopes]
        self.inconclusive += other.inconclusive
        return self


def load_known():
    if not os.path.exists(KNOWN_PATH):
        return []
    with open(KNOWN_PATH) as f:
        return json.load(f).get('findings', [])


def open_known(prop):
    return {k['signature']: k for k in load_known()
            if k.get('status') == 'open' and k.get('property') == prop}


def write_replay(prop, sig, rec, seed, shrunk):
    env.ensure_dir(REPLAY_DIR)
    name = f"{prop}-{hashlib.sha1(sig.encode()).hexdigest()[:10]}.json"
    path = os.path.join(REPLAY_DIR, name)
    with open(path, 'w') as f:
        json.dump({'property': prop, 'signature': sig, 'case': rec['case'],
                   'detail': rec['detail'], 'expected': rec['expected'],
                   'observed': rec['observed'], 'seed': seed, 'shrunk': shrunk,
                   'times_seen': rec['count']}, f, indent=1, default=str)
    return os.path.relpath(path, env.VERIF_DIR) if path.startswith(env.VERIF_DIR + os.sep) else path


# ---------------------------------------------------------------- shrinking

_KEEP_TAGS = {'mos', 'roCreate', 'roID', 'roSlug', 'messageID', 'mosID', 'storyID',
              'itemID', 'element_source', 'storyBody'}


def _removal_candidates(root):
    out = []

    def walk(parent, path):
        for i, c in enumerate(list(parent)):
            p = path + (i,)
            walk(c, p)
            if c.tag not in _KEEP_TAGS:
                out.append(p)
    walk(root, ())
    # try big things first (shallow paths), later siblings first so earlier
    # indices stay valid
    out.sort(key=lambda p: (len(p), tuple(-x for x in p)))
    return out


def _remove_at(root, path):
    parent = root
    for i in path[:-1]:
        parent = parent[i]
    parent.remove(parent[path[-1]])


def shrink_xml_fields(case, fields, still_fails, budget=400):
    """Greedy: repeatedly try to delete one element from one of the XML fields of
    `case` while still_fails(case) (same signature) holds."""
    case = dict(case)
    steps = 0
    changed = True
    while changed and steps < budget:
        changed = False
        for fld in fields:
            if not isinstance(case.get(fld), str):
                continue
            try:
                root = ET.fromstring(case[fld])
            except ET.ParseError:
                continue
            for path in _removal_candidates(root):
                if steps >= budget:
                    break
                trial_root = ET.fromstring(case[fld])
                try:
                    _remove_at(trial_root, path)
                except (IndexError, ValueError):
                    continue
                trial = dict(case)
                trial[fld] = ET.tostring(trial_root, encoding='unicode')
                steps += 1
                try:
                    ok = still_fails(trial)
                except Exception:
                    ok = False
                if ok:
                    case = trial
                    changed = True
                    break
            if changed:
                break
    return case


def shrink_list(case, field, still_fails, keep_last=False):
    """Greedy: drop single entries of the list case[field] while still_fails."""
    case = dict(case)
    seq = list(case[field])
    changed = True
    while changed:
        changed = False
        stop = len(seq) - 1 if keep_last else len(seq)
        for i in range(stop - 1, -1, -1):
            trial = dict(case)
            trial[field] = seq[:i] + seq[i + 1:]
            try:
                ok = still_fails(trial)
            except Exception:
                ok = False
            if ok:
                seq = trial[field]
                changed = True
                break
    case[field] = seq
    return case
