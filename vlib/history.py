"""Model-based histories: a Hypothesis RuleBasedStateMachine whose state is a live
RunningOrder object; every rule draws a message *against the state actually
reached*, merges it into the same object, and hands the judged step to the check
module's `record(col, ev)`.

A history case is {'history': [ro_xml, msg_xml_1, ..., msg_xml_k]}: replaying it
rebuilds the live object from scratch."""
from xml.etree import ElementTree as ET

from hypothesis import HealthCheck, Phase, seed as hseed, settings, strategies as st
from hypothesis.stateful import RuleBasedStateMachine, initialize, rule, run_state_machine_as_test

from . import env  # noqa: F401
from . import build, drive, gen, model, step, xmlcmp
from .findings import Collector

from mosromgr.mostypes import RunningOrder

DEFAULT_KINDS = [k for k in build.ALL_KINDS if k != 'roDelete']


def live_step(ro, msg_xml, history, as_bytes=False, route=None):
    """Like drive.eval_step but on a live running-order object."""
    ev = drive.StepEval()
    before = str(ro)
    ev.case = {'history': list(history) + [msg_xml], 'as_bytes': as_bytes}
    if drive.DEBUG_LOGGING:
        ev.case['logging'] = 'debug'
    ev.msg = model.Msg(msg_xml)
    try:
        ev.state = xmlcmp.state_of(ET.fromstring(before))
    except ET.ParseError as e:
        raise env.LibraryFault(f'serialisation-not-well-formed|str(ro) of a live running order does not parse: {e}')
    ev.ex = model.expect(ev.state, ev.msg)
    # half of the steps of a history (chosen by the message text, so replays agree) go through
    # msg.merge(ro) instead of ro += msg: anything the running order caches must not care
    from .findings import h64
    ev.obs = step.run_step(before, msg_xml.encode('utf-8') if as_bytes else msg_xml, ro_obj=ro,
                           via_merge=(h64(msg_xml) % 2 == 0) if route is None else (route == 'merge'))
    if ev.obs.parse_exc is None and ev.msg.kind is not None and ev.obs.cls_name != ev.msg.kind:
        ev.ex.note = 'class-mismatch'
    return ev


def replay_history(hist, as_bytes=False, routes=None):
    """Yield a StepEval per message of the history (fresh live object).  routes: optional
    {message text: 'merge' | 'add'} overriding the hash-chosen route of a step."""
    ro = RunningOrder.from_string(hist[0].encode('utf-8') if as_bytes else hist[0])
    done = [hist[0]]
    for msg_xml in hist[1:]:
        ev = live_step(ro, msg_xml, done, as_bytes=as_bytes, route=(routes or {}).get(msg_xml))
        if routes:
            ev.case['routes'] = routes
        done.append(msg_xml)
        if ev.obs.ro is not None:
            ro = ev.obs.ro
        yield ev


def rejudge_history(case, modname):
    mod = drive._mod(modname)
    fails = []
    if case.get('logging') == 'debug' and not drive.DEBUG_LOGGING:
        with drive.debug_logging():
            return rejudge_history(case, modname)
    for ev in replay_history(case['history'], case.get('as_bytes', False), case.get('routes')):
        fails += mod.judge(ev)
    return fails


def shrink_history(case, still_fails):
    """Drop messages (keeping order) while the same signature is still reported;
    finally try the single-step form (state reached, last message)."""
    hist = list(case['history'])
    changed = True
    while changed:
        changed = False
        for i in range(len(hist) - 1, 0, -1):
            trial = hist[:i] + hist[i + 1:]
            if len(trial) < 2:
                continue
            try:
                ok = still_fails(dict(case, history=trial))
            except Exception:
                ok = False
            if ok:
                hist = trial
                changed = True
                break
    # single-step form (state reached, last message).  Not when the case is going to be
    # kept as a regression case: the state was reached on the tree under test, and a
    # defective tree can reach states that are not valid inputs for the correct one.
    import os
    if os.environ.get('VERIF_KEEP_HISTORY'):
        return dict(case, history=hist)
    try:
        ro = RunningOrder.from_string(hist[0])
        for msg_xml in hist[1:-1]:
            step.run_step(None, msg_xml, ro_obj=ro)
        single = {'ro_xml': str(ro), 'msg_xml': hist[-1]}
        if case.get('logging'):
            single['logging'] = case['logging']
        if still_fails(single):
            return single
    except Exception:
        pass
    return dict(case, history=hist)


def make_machine(mod, col, kinds=None, faults='some', rich=True, degenerate=True,
                 timing_mode='any', max_stories=5, on_state=None, simple_ids=False, foreign_ro=True):
    kinds = list(kinds or DEFAULT_KINDS)

    class History(RuleBasedStateMachine):
        def __init__(self):
            super().__init__()
            self.ro = None
            self.hist = []
            self.ro_id = None
            self.mid = 0
            self.seen_s, self.seen_i = [], []
            self.mids = []

        @initialize(ro=gen.running_order(max_stories=max_stories, max_items=3, rich=rich,
                                         timing_mode=timing_mode, simple_ids=simple_ids))
        def create(self, ro):
            # from bytes in half of the histories (what from_file / from_s3 hand over)
            self.as_bytes = ro['mid'] % 2 == 0
            self.ro = RunningOrder.from_string(ro['ro_xml'].encode('utf-8') if self.as_bytes else ro['ro_xml'])
            self.hist = [ro['ro_xml']]
            self.ro_id = ro['ro_id']
            self.mid = ro['mid']
            self.mids = [ro['mid']]

        @rule(data=st.data())
        def send(self, data):
            try:
                root_now = ET.fromstring(str(self.ro))
            except ET.ParseError as e:
                raise env.LibraryFault(f'serialisation-not-well-formed|str(ro) of a live running order does not parse: {e}')
            if root_now.find('roCreate') is None:
                # only a defective tree gets here (a refused or half-applied merge took the element away):
                # no later step can be judged against such a state
                raise env.LibraryFault('running-order-without-roCreate|a live running order serialises without its '
                                       f'roCreate element after {len(self.hist) - 1} merged or refused message(s)')
            state = xmlcmp.state_of(root_now)
            for sid, its in state:
                if sid not in self.seen_s:
                    self.seen_s.append(sid)
                for i in its:
                    if i not in self.seen_i:
                        self.seen_i.append(i)
            # one message in eight re-uses the messageID of an earlier message of the history (a
            # different message with an ID already seen): a merge is decided by what the message
            # names, never by whether its messageID has been met before
            if len(self.mids) > 0 and data.draw(st.integers(0, 7)) == 0:
                self.mid = data.draw(st.sampled_from(self.mids))
                col.classes['history-step-reusing-an-earlier-messageID'] += 1
            else:
                self.mid = max([self.mid] + self.mids) + data.draw(st.integers(1, 120))
            try:
                _kind, msg_xml = data.draw(gen.message(
                    state, self.ro_id, kinds=kinds, faults=faults, rich=rich, mid=self.mid,
                    degenerate=degenerate, timing_mode=timing_mode,
                    stale_s=self.seen_s, stale_i=[i for i in self.seen_i if True], foreign_ro=foreign_ro))
            except (IndexError, KeyError, ValueError, AssertionError, TypeError, AttributeError):
                # a corrupted state (e.g. duplicate IDs produced by a defective tree) can be
                # outside what the message generator handles: skip the step, keep the run
                col.excluded['generator could not draw a message for the reached state'] += 1
                return
            ev = live_step(self.ro, msg_xml, self.hist, as_bytes=self.as_bytes)
            self.hist.append(msg_xml)
            self.mids.append(self.mid)
            mod.record(col, ev)
            if on_state is not None:
                on_state(col, self.ro, self.hist)
            col.classes[f'history-depth>={min(len(self.hist) - 1, 20) // 5 * 5}'] += 1

    return History


@drive.with_logging_config
def shard_returning(args):
    """Directed three-step histories on one live running order, judged step by step by the check
    module: (1) an insert, (2) a message that takes a story (or an item) away again - every kind
    that can: roStoryDelete, EA DELETE, roStoryReplace, EA REPLACE, roStorySend of the story,
    roReplace, roItemDelete, EA item DELETE, roItemReplace - (3) a message that brings the removed
    element back, next to a genuine duplicate and a new element.  Steps 1 and 2 share their
    messageID in every other history.  Anything the running order remembers between merges
    (a set of IDs, an index, the messageIDs seen) must not show."""
    import itertools
    from . import build as B
    modname = args
    mod = drive._mod(modname)
    col = Collector(mod.PROP)
    ro_xml = gen.ro_with_layout(['S0', 'S1', 'S2'], 'mixed', items_for={'S1': ['I0', 'I1']})

    def envl(body, mid):
        return B.tostring(B.envelope(body, mid))
    n = 0
    first = [lambda m: envl(B.story_insert('RO1', 'S1', [gen.plain_story('N0')]), m),
             lambda m: envl(B.ea_story_insert('RO1', 'S2', [gen.plain_story('N0')]), m),
             lambda m: envl(B.item_insert('RO1', 'S1', 'I1', [B.mk_item('J0')]), m)]
    second = [lambda m: envl(B.story_delete('RO1', ['S0']), m),
              lambda m: envl(B.ea_story_delete('RO1', ['S0']), m),
              lambda m: envl(B.story_replace('RO1', 'S0', [gen.plain_story('N1')]), m),
              lambda m: envl(B.ea_story_replace('RO1', 'S0', [gen.plain_story('N1')]), m),
              lambda m: envl(B.ro_replace('RO1', [gen.plain_story('S1'), gen.plain_story('N1')]), m)]
    third = [lambda m: envl(B.story_insert('RO1', 'S1', [gen.plain_story('N0'), gen.plain_story('S0'), gen.plain_story('N2')]), m),
             lambda m: envl(B.ea_story_insert('RO1', 'S1', [gen.plain_story('S0'), gen.plain_story('N2')]), m),
             lambda m: envl(B.story_append('RO1', [gen.plain_story('S0')]), m),
             lambda m: envl(B.story_replace('RO1', 'S1', [gen.plain_story('S0')]), m),
             lambda m: envl(B.ea_story_replace('RO1', 'S1', [gen.plain_story('S0')]), m)]
    second_i = [lambda m: envl(B.item_delete('RO1', 'S1', ['I0']), m),
                lambda m: envl(B.ea_item_delete('RO1', 'S1', ['I0']), m),
                lambda m: envl(B.item_replace('RO1', 'S1', 'I0', [B.mk_item('J1')]), m),
                lambda m: envl(B.ea_item_replace('RO1', 'S1', 'I0', [B.mk_item('J1')]), m),
                lambda m: envl(B.story_send('RO1', 'S1', body=[_story_item('I1')]), m)]
    third_i = [lambda m: envl(B.item_insert('RO1', 'S1', 'I1', [B.mk_item('I0'), B.mk_item('J2')]), m),
               lambda m: envl(B.ea_item_insert('RO1', 'S1', 'I1', [B.mk_item('I0')]), m),
               lambda m: envl(B.item_replace('RO1', 'S1', 'I1', [B.mk_item('I0')]), m),
               lambda m: envl(B.ea_item_replace('RO1', 'S1', 'I1', [B.mk_item('I0')]), m)]
    for fam, (f2, f3) in (('story', (second, third)), ('item', (second_i, third_i))):
        for a, b, c in itertools.product(first, f2, f3):
            for same_mid in (False, True):
                msgs = [a(2001), b(2001 if same_mid else 2002), c(2003)]
                for ev in replay_history([ro_xml] + msgs):
                    mod.record(col, ev)
                n += 1
    col.classes['returning-element-histories'] += n
    col.scopes.append(f'returning element: {n} three-step histories insert / take away (10 kinds) / bring back (9 kinds), '
                      'with and without a shared messageID')
    return col


def _story_item(iid):
    from . import build as B
    it = B.mk_item(iid)
    it.tag = 'storyItem'
    return it


def run_machine(machine, runs, steps, seed):
    run_state_machine_as_test(
        hseed(seed)(machine),
        settings=settings(max_examples=runs, stateful_step_count=steps, deadline=None,
                          database=None, phases=[Phase.generate],
                          suppress_health_check=list(HealthCheck)))


@drive.with_logging_config
def shard_history(args):
    modname, runs, steps, seed, kw = args
    mod = drive._mod(modname)
    col = Collector(mod.PROP)
    kw = dict(kw)
    hook = kw.pop('on_state', None)
    if isinstance(hook, str):
        hook = getattr(mod, hook)
    run_machine(make_machine(mod, col, on_state=hook, **kw), runs, steps, seed)
    return col
