"""Oracles for the read accessors (C15, C16, C17): values recomputed from the
XML with plain ElementTree and compared with what the library reports."""
import warnings
from datetime import datetime, timedelta
from xml.etree import ElementTree as ET

from . import env  # noqa: F401
from .step import Failure, innermost_site

RO_ACCESSORS = ['ro_slug', 'stories', 'start_time', 'end_time', 'duration', 'completed', 'script',
                'body', 'message_id', 'ro_id', 'dict', 'xml', 'base_tag', 'base_tag_name']
STORY_ACCESSORS = ['id', 'slug', 'items', 'duration', 'offset', 'start_time', 'end_time', 'script',
                   'body', 'xml']
ITEM_ACCESSORS = ['id', 'slug', 'type', 'object_id', 'mos_id', 'note', 'xml']


def _text(e, tag):
    c = e.find(tag)
    return None if c is None else c.text


def _payload(e):
    md = e.find('mosExternalMetadata')
    return None if md is None else md.find('mosPayload')


def x_note(item):
    pl = _payload(item)
    if pl is None:
        return None
    for sc in pl.iter('studioCommand'):
        if sc is not pl and sc.attrib.get('type') == 'note':
            t = sc.find('text')
            return None if t is None else t.text
    return None


def x_duration(story):
    pl = _payload(story)
    if pl is None:
        return None
    # a tag that is present but EMPTY holds no data: it counts as absent
    def val(tag):
        e = pl.find(tag)
        return None if e is None or e.text is None else float(e.text)
    sd = val('StoryDuration')
    if sd is not None:
        return sd
    tt, mt = val('TextTime'), val('MediaTime')
    if tt is None and mt is None:
        return None
    return (tt or 0.0) + (mt or 0.0)


def x_time(text):
    return None if text is None else datetime.fromisoformat(text.strip())


def x_explicit(story, tag):
    pl = _payload(story)
    if pl is None:
        return None
    return x_time(_text(pl, tag))


def is_note(text):
    t = text.strip()
    return (t.startswith('(') and t.endswith(')')) or (t.startswith('<') and t.endswith('>'))


def x_script(story):
    out = []
    for p in story:
        if p.tag == 'p' and p.text and p.text.strip() and not is_note(p.text):
            out.append(p.text.strip())
    return out


def x_body(story):
    """[('p', text) | ('item', element)]"""
    out = []
    for c in story:
        if c.tag == 'p':
            out.append(('p', c.text if c.text is not None else ''))
        elif c.tag == 'item':
            out.append(('item', c))
    return out


def call(obj, name, fails, prop, where):
    """getattr that records an escaping exception as a violation."""
    try:
        with warnings.catch_warnings():
            warnings.simplefilter('ignore')
            return True, getattr(obj, name)
    except Exception as e:
        fails.append(Failure(prop, f'{prop}|{where}.{name}|raised-{type(e).__name__}|{innermost_site(e.__traceback__)}',
                             f'{where}.{name} raised {type(e).__name__}: {e}', 'a value or None', type(e).__name__))
        return False, None


def close(a, b, tol=1e-6):
    if a is None or b is None:
        return a is b
    return abs(a - b) <= tol * max(1.0, abs(a), abs(b))


def tclose(a, b):
    if a is None or b is None:
        return a is b
    try:
        return abs(a - b) <= timedelta(microseconds=2)
    except TypeError:
        return False
