"""Reference model of the MOS merge semantics stated in properties C01-C06.

Independent of mosromgr: a message is parsed from its *text* with xml.etree, the
running-order state is [(story_id, [item_id, ...]), ...] read from the serialised
running order, and `expect()` returns the set of outcomes the properties allow.

Vocabulary
    Ref        ('id', text) | ('blank', None) | ('missing', None)
    Outcome    kind 'ok' (no exception; `state` is the full expected state,
               `warns`/`opt_warns` the required / optional mosromgr warnings) or
               kind 'err' (MosMergeError; state unchanged is C05's business)
    Expect     .allowed [Outcome], .resolves (all references resolve and the
               message is inside the unambiguous domain of C01/C02), .degenerate
               (self-referential / repeated IDs: only conservation is judged),
               .conserve (MOVE/SWAP: multiset of IDs must be conserved whatever the
               input), .classes (labels for the coverage histogram)
"""
from collections import Counter
from xml.etree import ElementTree as ET

from . import build
from .xmlcmp import story_id, item_id, item_elems

SNF = 'StoryNotFoundWarning'
INF = 'ItemNotFoundWarning'
DUP = 'DuplicateStoryWarning'

STORY_LEVEL = {'StorySend', 'StoryAppend', 'StoryDelete', 'StoryInsert',
               'StoryMove', 'StoryReplace', 'EAStoryReplace', 'EAStoryDelete',
               'EAStoryInsert', 'EAStorySwap', 'EAStoryMove'}
ITEM_LEVEL = {'ItemDelete', 'ItemInsert', 'ItemMoveMultiple', 'ItemReplace',
              'EAItemReplace', 'EAItemDelete', 'EAItemInsert', 'EAItemSwap',
              'EAItemMove'}
META_LEVEL = {'MetaDataReplace', 'ReadyToAir', 'RunningOrderEnd',
              'RunningOrderReplace'}
MOVE_SWAP = {'StoryMove', 'EAStoryMove', 'EAStorySwap', 'ItemMoveMultiple',
             'EAItemMove', 'EAItemSwap'}
PAYLOAD_KINDS = {'StorySend', 'StoryAppend', 'StoryInsert', 'StoryReplace',
                 'ItemInsert', 'ItemReplace', 'EAStoryReplace', 'EAItemReplace',
                 'EAStoryInsert', 'EAItemInsert', 'RunningOrderReplace',
                 'MetaDataReplace'}


def ref_of(parent, tag, index=0):
    if parent is None:
        return ('missing', None)
    els = parent.findall(tag)
    if len(els) <= index:
        return ('missing', None)
    t = els[index].text
    return ('blank', None) if t is None else ('id', t)


def refs_of(parent, tag):
    if parent is None:
        return []
    return [('blank', None) if e.text is None else ('id', e.text)
            for e in parent.findall(tag)]


class Msg:
    """What a message names, read from the message text."""

    def __init__(self, text):
        self.text = text
        self.root = ET.fromstring(text)
        self.kind = None          # library class name the document must map to
        self.base = None
        self.story_ref = None     # addressed story (item level) / re-sent story
        self.target = None        # target story (story level) or target item
        self.sources = []         # list of Ref
        self.payload = []         # carried story / item elements
        self.has_target_elem = True
        self._classify()

    def _classify(self):
        root = self.root
        for tag, cls in build.TAG_CLASS.items():
            b = root.find(tag)
            if b is not None:
                self.kind, self.base = cls, b
                break
        else:
            b = root.find('roElementAction')
            if b is None:
                return
            self.base = b
            op = b.attrib.get('operation')
            tgt = b.find('element_target')
            src = b.find('element_source')
            if src is None:
                return
            t_item = tgt is not None and len(tgt.findall('itemID')) > 0
            s_item = len(src.findall('itemID')) > 0
            self.kind = build.EA_TABLE.get((op, t_item, s_item))
            if self.kind is None:
                return
        k, b = self.kind, self.base
        if k == 'StorySend':
            self.story_ref = ref_of(b, 'storyID')
            self.payload = [story_send_to_story(b)] if b.find('storyBody') is not None else []
        elif k == 'StoryAppend':
            self.payload = b.findall('story')
        elif k == 'StoryDelete':
            self.sources = refs_of(b, 'storyID')
        elif k in ('StoryInsert', 'StoryReplace'):
            self.target = ref_of(b, 'storyID')
            self.payload = b.findall('story')
        elif k == 'StoryMove':
            ids = refs_of(b, 'storyID')
            self.sources = ids[:1]
            self.target = ids[1] if len(ids) > 1 else ('missing', None)
            self.n_ids = len(ids)
        elif k == 'ItemDelete':
            self.story_ref = ref_of(b, 'storyID')
            self.sources = refs_of(b, 'itemID')
        elif k in ('ItemInsert', 'ItemReplace'):
            self.story_ref = ref_of(b, 'storyID')
            self.target = ref_of(b, 'itemID')
            self.payload = b.findall('item')
        elif k == 'ItemMoveMultiple':
            self.story_ref = ref_of(b, 'storyID')
            ids = refs_of(b, 'itemID')
            self.sources = ids[:-1]
            self.target = ids[-1] if ids else ('missing', None)
        elif k in ('RunningOrderReplace',):
            self.payload = [b]
        elif k == 'MetaDataReplace':
            self.payload = list(b)
        elif k and k.startswith('EA'):
            tgt = b.find('element_target')
            src = b.find('element_source')
            self.has_target_elem = tgt is not None
            if k in ('EAStoryReplace', 'EAStoryInsert'):
                self.target = ref_of(tgt, 'storyID')
                self.payload = src.findall('story')
            elif k in ('EAItemReplace', 'EAItemInsert'):
                self.story_ref = ref_of(tgt, 'storyID')
                self.target = ref_of(tgt, 'itemID')
                self.payload = src.findall('item')
            elif k == 'EAStoryDelete':
                self.sources = refs_of(src, 'storyID')
            elif k == 'EAItemDelete':
                self.story_ref = ref_of(tgt, 'storyID')
                self.sources = refs_of(src, 'itemID')
            elif k == 'EAStorySwap':
                self.sources = refs_of(src, 'storyID')
            elif k == 'EAItemSwap':
                self.story_ref = ref_of(tgt, 'storyID')
                self.sources = refs_of(src, 'itemID')
            elif k == 'EAStoryMove':
                self.target = ref_of(tgt, 'storyID')
                self.sources = refs_of(src, 'storyID')
            elif k == 'EAItemMove':
                self.story_ref = ref_of(tgt, 'storyID')
                self.target = ref_of(tgt, 'itemID')
                self.sources = refs_of(src, 'itemID')

    @property
    def level(self):
        if self.kind in STORY_LEVEL:
            return 'story'
        if self.kind in ITEM_LEVEL:
            return 'item'
        if self.kind in META_LEVEL:
            return 'meta'
        if self.kind == 'RunningOrder':
            return 'ro'
        return 'none'

    def source_ids(self):
        return [v for (t, v) in self.sources if t == 'id']

    def payload_ids(self):
        if self.level == 'story':
            return [story_id(p) for p in self.payload]
        if self.level == 'item':
            return [item_id(p) for p in self.payload]
        return []


def story_send_to_story(ss):
    """Independent roStorySend -> story conversion: children of roStorySend in
    order, storyBody replaced in place by its children in order, direct storyItem
    children of the body renamed item, attributes of the root kept."""
    import copy
    st = ET.Element('story', dict(ss.attrib))
    st.text = ss.text
    for c in ss:
        if c.tag == 'storyBody' and c is ss.find('storyBody'):
            for bc in c:
                n = copy.deepcopy(bc)
                if n.tag == 'storyItem':
                    n.tag = 'item'
                st.append(n)
        else:
            st.append(copy.deepcopy(c))
    return st


class Outcome:
    def __init__(self, kind, state=None, warns=None, opt_warns=None, note=''):
        self.kind = kind
        self.state = state
        self.warns = Counter(warns or {})
        self.opt_warns = Counter(opt_warns or {})
        self.note = note

    def story_seq(self):
        return [s for s, _ in self.state]

    def describe(self):
        if self.kind == 'err':
            return 'MosMergeError (running order unchanged)'
        w = dict(self.warns)
        return f'{self.note or "ok"}: stories={self.story_seq()} warnings={w}'


class Expect:
    def __init__(self):
        self.allowed = []
        self.resolves = False
        self.degenerate = False
        self.conserve = False
        self.classes = []
        self.addressed = None     # addressed story id (item level) if it resolves
        self.note = ''

    def kinds(self):
        return {o.kind for o in self.allowed}


def _payload_state(stories):
    return [(story_id(s), [item_id(i) for i in item_elems(s)]) for s in stories]


def _dups(seq):
    return len(set(seq)) != len(seq)


def _pos_classes(seq, sources, target):
    """Coverage labels for the relative position of sources and target in seq."""
    out = []
    n = len(seq)
    idx = {v: i for i, v in enumerate(seq)}
    src_i = [idx[s] for s in sources if s in idx]
    if not src_i:
        return out
    if len(src_i) > 1:
        out.append('multi-source')
        if src_i != sorted(src_i):
            out.append('sources-not-in-doc-order')
        if any(b - a != 1 for a, b in zip(sorted(src_i), sorted(src_i)[1:])):
            out.append('sources-scattered')
    if target is None:
        out.append('target=end')
        if n - 1 in src_i:
            out.append('source-last->end')
    elif target in idx:
        t = idx[target]
        if any(i < t for i in src_i):
            out.append('forward-move')
        if any(i > t for i in src_i):
            out.append('backward-move')
        if any(i < t for i in src_i) and any(i > t for i in src_i):
            out.append('sources-both-sides')
        if any(i == t - 1 for i in src_i):
            out.append('source-immediately-before-target')
        if any(i == t + 1 for i in src_i):
            out.append('source-immediately-after-target')
        if t == 0:
            out.append('target-first')
        if t == n - 1:
            out.append('target-last')
    if 0 in src_i:
        out.append('source-first')
    if n - 1 in src_i:
        out.append('source-last')
    return out


def _move(seq, sources, target):
    """Remove sources, place them in message order immediately before target
    (None = end)."""
    rest = [x for x in seq if x not in sources]
    if target is None:
        return rest + list(sources)
    k = rest.index(target)
    return rest[:k] + list(sources) + rest[k:]


def expect(state, m):
    """state: [(sid, [iids])]; m: Msg -> Expect"""
    ex = Expect()
    k = m.kind
    sids = [s for s, _ in state]
    items_of = {s: list(i) for s, i in state}
    unchanged = [(s, list(i)) for s, i in state]

    def ok(st, warns=None, opt=None, note=''):
        ex.allowed.append(Outcome('ok', st, warns, opt, note))

    def err():
        ex.allowed.append(Outcome('err'))

    def not_found(cat, *refs):
        # an unresolvable reference: raise, or warn (documented category) and
        # leave everything as it was.  When the unresolvable reference is a *blank or
        # absent* tag (it names nothing) leaving everything as it was without a report is
        # admissible too - C06 speaks of named elements that cannot be found.
        err()
        ok(unchanged, {cat: 1}, note='warn-unchanged')
        if refs and any(r is None or r[0] != 'id' for r in refs):
            ok(unchanged, {}, note='blank-reference-ignored')

    if k is None or m.level in ('none', 'ro'):
        ex.note = 'unclassifiable'
        return ex
    if m.level == 'meta':
        ex.resolves = True
        if k == 'RunningOrderReplace':
            ok(_payload_state(m.payload[0].findall('story')))
        else:
            ok(unchanged)
        return ex

    ex.conserve = k in MOVE_SWAP
    if _dups(sids):      # (one story with an EMPTY storyID is a story like any other: no reference can name it)
        # story IDs are not unique (or a story has no ID): outside the stated domain of
        # C01-C06 - only conservation is judged
        ex.degenerate = True
        ex.classes.append('duplicate-story-ids-in-running-order')
        return ex

    # ------------------------------------------------------------ story level
    if m.level == 'story':
        pids = m.payload_ids()
        pstate = _payload_state(m.payload)
        if k == 'StoryAppend':
            if _dups(pids) or set(pids) & set(sids) or None in pids:
                ex.degenerate = True
                return ex
            ex.resolves = True
            ex.classes.append(f'append-{min(len(pids), 3)}')
            ok(unchanged + pstate)
            return ex
        if k in ('StoryInsert', 'EAStoryInsert'):
            if _dups(pids) or None in pids:
                ex.degenerate = True
                return ex
            nondup = [p for p in pstate if p[0] not in sids]
            ndup = len(pstate) - len(nondup)
            w = {DUP: ndup} if ndup else {}
            t, v = m.target
            if t == 'id' and v in sids:
                i = sids.index(v)
                ex.resolves = True
                ok(unchanged[:i] + nondup + unchanged[i:], w, note='before-target')
                if ndup:
                    err()
                    ex.classes.append('duplicate-skipped')
                if len(pstate) > 1:
                    ex.classes.append('multi-story-insert')
                ex.classes.append('target-first' if i == 0 else
                                  'target-last' if i == len(sids) - 1 else 'target-middle')
            elif t == 'id':
                not_found(SNF)
                ex.classes.append('target-unknown')
            else:
                ok(unchanged + nondup, w, note='end')
                if ndup:
                    err()
                    ex.classes.append('duplicate-skipped')
                if k == 'EAStoryInsert':
                    ex.resolves = True
                    ex.classes.append('target=end')
                else:
                    not_found(SNF, m.target)
                    ex.classes.append('target-' + t)
            return ex
        if k in ('StoryReplace', 'EAStoryReplace'):
            t, v = m.target
            if t == 'id' and v in sids:
                others = set(sids) - {v}
                if _dups(pids) or set(pids) & others or None in pids:
                    ex.degenerate = True
                    return ex
                if not pstate:
                    err()
                    ok(unchanged[:sids.index(v)] + unchanged[sids.index(v) + 1:])
                    ex.degenerate = True
                    return ex
                i = sids.index(v)
                ex.resolves = True
                ok(unchanged[:i] + pstate + unchanged[i + 1:])
                if len(pstate) > 1:
                    ex.classes.append('multi-story-replace')
                if v in pids:
                    ex.classes.append('same-id-replace')
                ex.classes.append(f'replace-{"first" if i == 0 else "kth"}')
            else:
                not_found(SNF, m.target)
                ex.classes.append('target-' + ('unknown' if t == 'id' else t))
            return ex
        if k == 'StorySend':
            t, v = m.story_ref
            if not m.payload:
                ex.degenerate = True
                return ex
            if t == 'id' and v in sids:
                i = sids.index(v)
                ex.resolves = True
                ok(unchanged[:i] + pstate + unchanged[i + 1:])
                ex.classes.append('resend-first' if i == 0 else 'resend-kth')
            else:
                not_found(SNF, m.story_ref)
                ex.classes.append('send-' + ('unknown' if t == 'id' else t))
            return ex
        if k in ('StoryDelete', 'EAStoryDelete'):
            ids = m.source_ids()
            nblank = sum(1 for t, _ in m.sources if t != 'id')
            # every occurrence of an ID that is not in the running order is a named story
            # that cannot be found (one warning each); a repeated occurrence of an ID
            # that WAS there may or may not be reported (it has just been deleted)
            missing = [i for i in ids if i not in sids]
            repeats = len([i for i in ids if i in sids]) - len(set(i for i in ids if i in sids))
            st = [e for e in unchanged if e[0] not in ids]
            if not missing and not nblank and not repeats:
                ex.resolves = True
            else:
                err()
            if repeats:
                ex.classes.append('repeated-id-in-list')
            ok(st, {SNF: len(missing)} if missing else {},
               {SNF: nblank + repeats} if nblank + repeats else {})
            if len(m.sources) > 1:
                ex.classes.append('multi-id-delete')
            if missing and len(missing) < len(ids):
                ex.classes.append('partial-miss')
            return ex
        if k == 'StoryMove':
            if not m.sources:
                err()
                ex.classes.append('no-ids')
                return ex
            st_, sv = m.sources[0]
            tt, tv = m.target
            if st_ != 'id' or sv not in sids:
                not_found(SNF, m.sources[0])
                ex.classes.append('source-unresolved')
                return ex
            if tt == 'id' and tv not in sids:
                not_found(SNF)
                ex.classes.append('target-unknown')
                return ex
            if tt == 'id' and tv == sv:
                ex.degenerate = True
                ok(unchanged)
                err()
                ex.classes.append('source=target')
                return ex
            target = tv if tt == 'id' else None
            ex.resolves = True
            order = _move(sids, [sv], target)
            ok([(s, items_of[s]) for s in order])
            ex.classes += _pos_classes(sids, [sv], target)
            return ex
        if k == 'EAStorySwap':
            if len(m.sources) != 2:
                ex.degenerate = True
                return ex
            (ta, a), (tb, b) = m.sources
            if ta != 'id' or tb != 'id' or a not in sids or b not in sids:
                not_found(SNF, *[r for r in m.sources if r[0] != 'id' or r[1] not in sids])
                ex.classes.append('operand-unresolved')
                return ex
            if a == b:
                ex.degenerate = True
                ok(unchanged)
                err()
                ex.classes.append('swap-self')
                return ex
            ex.resolves = True
            ia, ib = sids.index(a), sids.index(b)
            order = list(sids)
            order[ia], order[ib] = order[ib], order[ia]
            ok([(s, items_of[s]) for s in order])
            ex.classes.append('swap-first-operand-later' if ia > ib else 'swap-first-operand-earlier')
            if abs(ia - ib) == 1:
                ex.classes.append('swap-adjacent')
            else:
                ex.classes.append('swap-apart')
            return ex
        if k == 'EAStoryMove':
            ids = m.source_ids()
            nbad = sum(1 for t, _ in m.sources if t != 'id')
            tt, tv = m.target
            if not m.sources:
                ex.degenerate = True
                return ex
            if _dups(ids) or (tt == 'id' and tv in ids):
                ex.degenerate = True
                ok(unchanged)
                err()
                ex.classes.append('target-in-sources' if not _dups(ids) else 'repeated-source')
                return ex
            if tt == 'id' and tv not in sids:
                not_found(SNF)
                ex.classes.append('target-unknown')
                return ex
            missing = [i for i in ids if i not in sids]
            present = [i for i in ids if i in sids]
            target = tv if tt == 'id' else None
            order = _move(sids, present, target)
            st = [(s, items_of[s]) for s in order]
            if missing or nbad:
                err()
                ok(st, {SNF: len(missing)} if missing else {}, {SNF: nbad} if nbad else {},
                   note='partial')
                if nbad and ids:
                    # a blank entry beside real ones: the library's Story(source, id=None) falls back to the
                    # FIRST storyID of the list, so the blank entry is a repeated source to it - and for
                    # repeated sources "unchanged, no report" is inside the latitude (Appendix A; blank
                    # sources are outside the stated domain, C20 ASSUMPTIONS)
                    ok(unchanged)
                ex.classes.append('source-unresolved')
                return ex
            if tt != 'id' and m.has_target_elem:
                # element_target present, storyID blank or missing: end or error
                err()
                ok(st, note='end')
                ex.classes.append('target-' + tt)
                return ex
            ex.resolves = True
            ok(st)
            ex.classes += _pos_classes(sids, ids, target)
            return ex

    # ------------------------------------------------------------- item level
    if m.level == 'item':
        t, v = m.story_ref
        if not (t == 'id' and v in sids):
            not_found(SNF, m.story_ref)
            ex.classes.append('story-' + ('unknown' if t == 'id' else t))
            return ex
        if sids.count(v) != 1:
            ex.degenerate = True
            return ex
        ex.addressed = v
        si = sids.index(v)
        iids = items_of[v]
        pids = m.payload_ids()

        def with_items(new):
            return unchanged[:si] + [(v, list(new))] + unchanged[si + 1:]

        if _dups(iids):      # (one item with an empty itemID: no reference can name it)
            ex.degenerate = True
            return ex
        if k in ('ItemInsert', 'EAItemInsert'):
            if _dups(pids) or set(pids) & set(iids) or None in pids:
                ex.degenerate = True
                return ex
            tt, tv = m.target
            if tt == 'id' and tv in iids:
                i = iids.index(tv)
                ex.resolves = True
                ok(with_items(iids[:i] + pids + iids[i:]))
                ex.classes.append('ref-first' if i == 0 else 'ref-last' if i == len(iids) - 1 else 'ref-middle')
                if len(pids) > 1:
                    ex.classes.append('multi-item-insert')
            elif tt == 'id':
                not_found(INF)
                ex.classes.append('ref-unknown')
            elif tt == 'blank':
                ex.resolves = True
                ok(with_items(iids + pids), note='end')
                ex.classes.append('ref-blank=end')
            else:
                ok(with_items(iids + pids), note='end')
                err()
                ex.classes.append('ref-missing')
            return ex
        if k in ('ItemReplace', 'EAItemReplace'):
            tt, tv = m.target
            if tt == 'id' and tv in iids:
                if _dups(pids) or set(pids) & (set(iids) - {tv}) or None in pids or not pids:
                    ex.degenerate = True
                    return ex
                i = iids.index(tv)
                ex.resolves = True
                ok(with_items(iids[:i] + pids + iids[i + 1:]))
                if len(pids) > 1:
                    ex.classes.append('multi-item-replace')
                if tv in pids:
                    ex.classes.append('same-id-replace')
                ex.classes.append(f'replace-{"first" if i == 0 else "kth"}')
            else:
                not_found(INF, m.target)
                ex.classes.append('ref-' + ('unknown' if tt == 'id' else tt))
            return ex
        if k in ('ItemDelete', 'EAItemDelete'):
            ids = m.source_ids()
            nblank = sum(1 for t_, _ in m.sources if t_ != 'id')
            missing = [i for i in ids if i not in iids]
            repeats = len([i for i in ids if i in iids]) - len(set(i for i in ids if i in iids))
            if not missing and not nblank and not repeats:
                ex.resolves = True
            else:
                err()
            if repeats:
                ex.classes.append('repeated-id-in-list')
            ok(with_items([i for i in iids if i not in ids]),
               {INF: len(missing)} if missing else {}, {INF: nblank + repeats} if nblank + repeats else {})
            if len(m.sources) > 1:
                ex.classes.append('multi-id-delete')
            if missing and len(missing) < len(ids):
                ex.classes.append('partial-miss')
            return ex
        if k == 'EAItemSwap':
            if len(m.sources) != 2:
                ex.degenerate = True
                return ex
            (ta, a), (tb, b) = m.sources
            if ta != 'id' or tb != 'id' or a not in iids or b not in iids:
                not_found(INF, *[r for r in m.sources if r[0] != 'id' or r[1] not in iids])
                ex.classes.append('operand-unresolved')
                return ex
            if a == b:
                ex.degenerate = True
                ok(unchanged)
                err()
                ex.classes.append('swap-self')
                return ex
            ex.resolves = True
            ia, ib = iids.index(a), iids.index(b)
            order = list(iids)
            order[ia], order[ib] = order[ib], order[ia]
            ok(with_items(order))
            ex.classes.append('swap-first-operand-later' if ia > ib else 'swap-first-operand-earlier')
            ex.classes.append('swap-adjacent' if abs(ia - ib) == 1 else 'swap-apart')
            return ex
        if k in ('ItemMoveMultiple', 'EAItemMove'):
            ids = m.source_ids()
            nbad = sum(1 for t_, _ in m.sources if t_ != 'id')
            tt, tv = m.target
            if _dups(ids) or (tt == 'id' and tv in ids):
                ex.degenerate = True
                ok(unchanged)
                err()
                ex.classes.append('ref-in-sources' if not _dups(ids) else 'repeated-source')
                return ex
            if tt == 'id' and tv not in iids:
                not_found(INF)
                ex.classes.append('ref-unknown')
                return ex
            if tt == 'missing':
                ex.degenerate = True
                return ex
            missing = [i for i in ids if i not in iids]
            present = [i for i in ids if i in iids]
            target = tv if tt == 'id' else None
            st = with_items(_move(iids, present, target))
            if missing or nbad:
                err()
                ok(st, {INF: len(missing)} if missing else {}, {INF: nbad} if nbad else {},
                   note='partial')
                ex.classes.append('source-unresolved')
                return ex
            if tt == 'blank' and k == 'EAItemMove':
                err()
                ok(st, note='end')
                ex.classes.append('ref-blank')
                return ex
            ex.resolves = True
            ok(st)
            if not ids:
                ex.classes.append('no-sources')
            ex.classes += _pos_classes(iids, ids, target)
            return ex
    raise AssertionError(f'model: unhandled kind {k}')
