"""Environment bootstrap: make sure `mosromgr` is imported from the repository's
*current working tree* (VERIF_REPO_DIR, default /repo), silence the library's
logging noise, and expose a few paths.

Importing this module has side effects on sys.path; import it before anything
that imports mosromgr.
"""
import logging
import os
import sys

VERIF_DIR = os.path.dirname(os.path.dirname(os.path.abspath(__file__)))
REPO_DIR = os.path.abspath(os.environ.get('VERIF_REPO_DIR', '/repo'))
DEPS_DIR = os.path.join(VERIF_DIR, '.deps')
WORK_DIR = os.path.join(VERIF_DIR, '.work')
PYTHON = sys.executable

sys.dont_write_bytecode = True
os.environ['PYTHONDONTWRITEBYTECODE'] = '1'


class HarnessError(Exception):
    """Anything that is wrong with the machinery, not with mosromgr (exit 2)."""


class LibraryFault(Exception):
    """mosromgr handed the machinery something no property allows (e.g. a serialisation that is not
    well-formed XML) at a place where the check was only preparing its next step: reported by the
    runner as a violation of the property under test (never raised on the unchanged tree)."""


def _bootstrap():
    # the repository first, so that edits to the working tree are what runs
    if REPO_DIR in sys.path:
        sys.path.remove(REPO_DIR)
    sys.path.insert(0, REPO_DIR)
    if os.path.isdir(DEPS_DIR) and DEPS_DIR not in sys.path:
        sys.path.append(DEPS_DIR)
    for name in list(sys.modules):
        if name == 'mosromgr' or name.startswith('mosromgr.'):
            raise HarnessError('mosromgr imported before vlib.env')
    try:
        import mosromgr  # noqa: F401
        import mosromgr.mostypes  # noqa: F401
        import mosromgr.moscollection  # noqa: F401
    except Exception as e:  # a tree that does not import is a harness error
        raise HarnessError(f'cannot import mosromgr from {REPO_DIR}: {e!r}')
    here = os.path.abspath(mosromgr.__file__)
    if not here.startswith(REPO_DIR + os.sep):
        raise HarnessError(f'mosromgr imported from {here}, not from {REPO_DIR}')
    # mostypes/moscollection call logging.basicConfig(level=INFO) at import time
    logging.disable(logging.CRITICAL)


_bootstrap()


def seed() -> int:
    try:
        return int(os.environ.get('VERIF_SEED', '1'))
    except ValueError:
        return 1


def ensure_dir(path):
    os.makedirs(path, exist_ok=True)
    return path
