"""Generators: Hypothesis strategies for running orders and messages, and
explicit enumerators for the exhaustive small scopes.

A *step case* is {'ro_xml': str, 'msg_xml': str}.  Messages are always drawn
against a state (the story / item IDs of the running order they are sent to), so
that every position class is reachable by construction."""
import itertools

from hypothesis import strategies as st

from . import build as B
from .build import E, T, P

# ------------------------------------------------------------------ ID pools
SIMPLE_S = [f'S{i}' for i in range(10)]
ODD_S = ['STORY1', 'STORY10', 'story1', 'OPENMEDIA_NCS.W1.BBC.MOS;OM_4.15;OM_4.16,4.15.1',
         'a&b', 'x<y', 'é中', '42', '007', 'S 1', ' S1', 'None', '0',
         # quotes, format-string characters, IDs that share the part before / after a comma
         "PM'S SPEECH", 'say "hi"', 'VAT 20% RISE', 'clip%sfinal', '{0}', 'OM_4.15,4.1', 'OM_4.15,4.2',
         'OM_9.1,4.1', '1', '12', 'S1 ', 'a\\b',
         # long, tag-like, number-like, normalisation pairs, inner line break / tab
         'L' * 150, 'story', 'storyID', 'item', 'True', 'null', '1.0', '01', '\u00e9', 'e\u0301', 'a\tb', 'a\nb',
         '\u212b', '\u00c5', 'S0/1', '../S0', '#1', '*', '[S0]', 'S0|S1', '$(id)', '\u00a0S0']
STORY_POOL = SIMPLE_S + ODD_S
NEW_S = [f'N{i}' for i in range(8)] + ['STORY100', 'n&w', 'NEW;1,2', 'ü1', 'N90 ', '\n      N91\n    ']
UNKNOWN_S = ['ZZ-unknown', 'S', 'S00', 'story', 'STORY', 'é', '-1', "O'NEILL", '100%', '%s %d', '{x}',
             'OM_4.15,9.9', 'OM_0.0,4.1']

SIMPLE_I = [f'I{i}' for i in range(10)]
ODD_I = ['ITEM1', 'ITEM10', 'item1', '1', 'i&1', 'OM_4.15.1;7', 'ï2', "O'BRIEN-VT", '2', '12', '10', '50%',
         'clip%d', 'OBJ,1.1', 'OBJ,1.2', 'ALT,1.1', 'S0', 'S1',
         'M' * 120, 'item', 'itemID', '01', '1.0', 'e\u0301', '\u00e9', 'i\tj', '[0]', '*', 'I0|I1']
ITEM_POOL = SIMPLE_I + ODD_I
NEW_I = [f'J{i}' for i in range(8)] + ['ITEM100', 'j<1', ' J90', 'J91\n']
UNKNOWN_I = ['ZZ-unknown-item', 'I', 'I00', 'item', '-1', "it'em", '7%', '%(id)s', 'OBJ,9.9', 'NONE,1.1']

# XML 1.0 legal text without CR (parsers normalise it) - see DESIGN.md section 5
_ALPHA = st.characters(
    codec='utf-8', exclude_characters='\r',
    exclude_categories=('Cs', 'Cc', 'Co', 'Cn'),
) | st.sampled_from(['\n', '\t', '<', '>', '&', '"', "'", ' ', '(', ')'])
text = st.text(_ALPHA, max_size=12).filter(lambda s: '\ufffe' not in s and '\uffff' not in s)
ws = st.sampled_from([None, '', ' ', '\n  ', '\t'])
TAGS = ['roChannel', 'roEdDur', 'roTrigger', 'macroIn', 'custom', 'x-y', 'objSlug', 'b', 'em', 'a.b']

# ---------------------------------------------------------------------------
# Fragment tables.  One Hypothesis draw costs ~50 us, and a rich running order
# built primitive by primitive needs ~1000 of them; instead the *variety* lives in
# fixed tables of prebuilt fragments (texts, generic subtrees, item / story shells,
# timing blocks, paragraph runs) and Hypothesis picks table entries and decides
# the combinatorial structure (counts, IDs, positions, references).  The tables
# are built once, deterministically (fixed-seed PRNG at import: a static corpus,
# not a per-case random source).
import random as _random

_R = _random.Random(20260926)
TEXT_POOL = [None, '', ' ', 'plain', 'two words', '  padded  ', 'a&b', 'x<y>z', '"quoted"', "it's",
             'é中文', 'line1\nline2', '\ttab', ']]>', '&amp;', '<tag>', '0', 'None', '(b)', 'ünï',
             ' sep', 'emoji \U0001F600', 'a' * 40, '--', '<!-- c -->', '<?pi?>', ' \n ',
             # DEL and C1 controls are legal XML 1.0 characters (cp1252 / latin-1 mix-ups, NEL)
             'del\x7f', '\x93quoted\x94', 'next\x85line']
ATTR_NAMES = ['type', 'id', 'lang', 'x']


def _rand_text():
    return _R.choice(TEXT_POOL)


def _rand_generic(depth):
    attrib = {}
    for _ in range(_R.choice([0, 0, 1, 2])):
        attrib[_R.choice(ATTR_NAMES)] = _rand_text() or ''
    kids = []
    if depth > 0:
        for _ in range(_R.choice([0, 1, 1, 2])):
            kids.append(_rand_generic(depth - 1))
    kids = [(k[0], k[1], k[2], k[3], _R.choice([None, None, ' ', 'tail', '\n  ', 't&t'])) for k in kids]
    return (_R.choice(TAGS), attrib, _rand_text(), kids, None)


GENERIC_SPECS = {d: [_rand_generic(d) for _ in range(24)] for d in (0, 1, 2)}
# decoys: MOS-significant tags nested below an unrelated element.  Only *direct*
# children count as stories / items / paragraphs / IDs, so none of these may ever be
# picked up by a lookup or an accessor.
_DECOYS = [
    ('wrapper', {}, None, [('item', {}, None, [('itemID', {}, 'NESTED-ITEM', [], None),
                                                 ('itemSlug', {}, 'nested', [], None)], None)], None),
    ('wrapper', {}, None, [('p', {}, 'nested paragraph', [], None), ('p', {}, '(nested note)', [], 't')], None),
    ('mosExternalMetadata2', {}, None, [('mosPayload', {}, None, [
        ('story', {}, None, [('storyID', {}, 'NESTED-STORY', [], None), ('p', {}, 'text of a nested story', [], None),
                             ('item', {}, None, [('itemID', {}, 'NESTED-STORY-ITEM', [], None)], None)], None),
        ('storyItem', {}, None, [('itemID', {}, 'NESTED-SI', [], None)], None)], None)], None),
    ('custom', {'type': 'note'}, 'x', [('storyID', {}, 'S0', [], None), ('itemID', {}, 'I0', [], None),
                                        ('studioCommand', {'type': 'note'}, None, [('text', {}, 'decoy', [], None)], None)], None),
    ('wrapper', {}, None, [('roDelete', {}, None, [('roID', {}, 'X', [], None)], None),
                           ('mosromgrmeta', {}, None, [], None), ('roCreate', {}, None, [], None)], None),
]
_DECOYS += [
    ('crossRef', {}, None, [('storyID', {}, 'N0', [], None), ('storyID', {}, 'N1', [], None),
                            ('storyID', {}, 'G0', [], None), ('itemID', {}, 'J0', [], None),
                            ('itemID', {}, 'H0', [], None)], None),
    ('list', {}, None, [('item', {}, 'one', [], None), ('item', {}, 'two', [], None),
                        ('story', {}, None, [('storyID', {}, 'N2', [], None)], None)], None),
]
_DECOYS += [
    ('mosPayloadish', {}, None, [('messageID', {}, '5', [], None), ('roID', {}, 'OTHER', [], None),
                                 ('mosID', {}, 'nested.mos', [], None), ('roSlug', {}, 'nested slug', [], None)], None),
    ('\u00dcberschrift', {'gr\u00f6\u00dfe': '1'}, 'non-ASCII names', [('\u4e2d\u6587', {}, 'x', [], None)], None),
]
for _d in (1, 2):
    GENERIC_SPECS[_d] = GENERIC_SPECS[_d] + _DECOYS


def generic(depth=2, tags=None):
    """A generic subtree: table entry (fresh Element each time)."""
    return st.sampled_from(GENERIC_SPECS[min(depth, 2)]).map(B.from_spec)


PARAS = [None, '', ' ', 'Plain text', '  padded  ', '(note)', '<cue>', '(half', 'half)',
         '<half', ' (padded note) ', '()', '<>', '(', 'é中 text', 'a (b) c', '\n', 'x\ny',
         ')(', '><', '(a)(b)', '<a> b <c>', ' ( spaced ) ', 'ends with )', '( starts',
         '(mixed>', '<mixed)', '(Beat) 3 - 1 <FT>', '<GFX> see chart (left)', ' (pad> ', '<)', '(>',
         '(multi\nline)', '<multi\nline>', '(a\n\nb)\n', '\u00a0(nbsp note)', 'e\u0301 decomposed', '\u212b \u2126',
         'line\u2028sep', '(x) ' * 30]
PARA_RUNS = [[]] * 6 + [[p] for p in PARAS] + [[_R.choice(PARAS), _R.choice(PARAS)] for _ in range(20)]


def paragraph():
    return st.sampled_from(PARAS).map(P)


def para_run():
    return st.sampled_from(PARA_RUNS).map(lambda run: [P(t) for t in run])


DURS = ['0', '1', '2', '3', '5', '10', '0.25', '0.5', '1.75', '12.5', '100', '59.04', '0.0', '00', '+5', '005',
        '3.0000001', '86399.99', '1E1', '7.', '.25', ' 6 ']
DUR = st.sampled_from(DURS)
TIME_TEXTS = ['2020-01-01T12:30:00', '2021-06-30T23:59:59', '1999-12-31T00:00:01',
              '2020-02-29T06:00:00.250000', '2020-01-01T12:31', '2021-06-30T23:59',
              # other ISO 8601 spellings: blank instead of 'T', decimal comma (the MOS schema's own form),
              # basic format, date only, more than six fraction digits
              '2020-01-01 12:30:00', '2020-01-01T12:30:00,250', '20200101T123000', '2020-01-01',
              ' 2020-01-01T12:30:00 ', '\n      2021-06-30T23:59:59\n    ',
              '2020-01-01T12:30:00.123456789']
TIMES = st.sampled_from(TIME_TEXTS)


def _timing_variants():
    timed, untimed = [], [('absent', None), ('nopayload', {}), ('empty', {})]
    for shape in ['dur', 'tt+mt', 'tt', 'mt', 'dur+tt+mt']:
        for _ in range(8):
            f = {}
            if shape in ('dur', 'dur+tt+mt'):
                f['StoryDuration'] = _R.choice(DURS)
            if shape in ('tt+mt', 'tt', 'dur+tt+mt'):
                f['TextTime'] = _R.choice(DURS)
            if shape in ('tt+mt', 'mt', 'dur+tt+mt'):
                f['MediaTime'] = _R.choice(DURS)
            if _R.randrange(5) == 0:
                f['StoryStarted'] = _R.choice(TIME_TEXTS)
            if _R.randrange(5) == 0:
                f['StoryEnded'] = _R.choice(TIME_TEXTS)
            items = list(f.items())
            _R.shuffle(items)
            timed.append((shape, dict(items)))
    # present-but-empty tags: the field exists, the newsroom system has not filled it in
    untimed += [('empty-tags', {'StoryDuration': None}), ('empty-tags', {'TextTime': None, 'MediaTime': None})]
    timed += [('empty-tags', {'StoryDuration': None, 'TextTime': '2', 'MediaTime': '3'}),
              ('empty-tags', {'TextTime': None, 'MediaTime': '3'}),
              ('empty-tags', {'StoryDuration': '4', 'StoryStarted': None}),
              ('empty-tags', {'StoryDuration': '4', 'StoryEnded': None, 'StoryStarted': '2020-01-01T12:30:00'})]
    return timed, untimed


TIMED, UNTIMED = _timing_variants()


def _mk_timing(v):
    shape, f = v
    if shape == 'absent':
        return None
    if shape == 'nopayload':
        return B.timing_block({}, payload=False)
    return B.timing_block(f)


def timing(mode='any'):
    """mode 'timed' -> always yields a duration; 'none' -> None; 'any' -> either."""
    if mode == 'none':
        return st.none()
    pool = TIMED if mode == 'timed' else TIMED + UNTIMED * 4
    return st.sampled_from(pool).map(_mk_timing)


def _item_variants():
    out = [dict(slug='slug')]
    for _ in range(40):
        out.append(dict(
            slug=_R.choice([None, 'slug', _rand_text()]), obj_id=_R.choice([None, 'OBJ1']),
            mos_id=_R.choice([None, 'mos.id']), obj_type=_R.choice([None, 'VIDEO']),
            note=_R.choice([None, None, ('note', 'a note'), ('note', ''), ('nested', 'n&n'), ('untyped-first', 'typed note'),
                            ('other', 'cue'), ('empty', '')]),
            extras=[_R.choice(GENERIC_SPECS[1])] if _R.randrange(3) == 0 else [],
            id_first=_R.randrange(5) > 0, attrib=_R.choice([None, None, None, {'x': 'a"b'}])))
    return out


ITEM_VARIANTS = _item_variants() + [
    dict(slug='', obj_id='', mos_id='', obj_type=''),                      # present but empty tags
    dict(slug='slug', obj_id='', note=('note-no-text', '')),
    dict(slug=None, obj_type='', mos_id='mos.id', note=('note-no-text', '')),
]


def _mk_item(iid, v, tag='item'):
    it = B.mk_item(iid, slug=v.get('slug'), obj_id=v.get('obj_id'), mos_id=v.get('mos_id'),
                   obj_type=v.get('obj_type'), note=v.get('note'),
                   extras=[B.from_spec(x) for x in v.get('extras', [])],
                   id_first=v.get('id_first', True))
    if v.get('attrib'):
        it.attrib.update(v['attrib'])
    it.tag = tag
    return it


def item(iid, rich=True, tag='item'):
    if not rich:
        return st.just(None).map(lambda _: _mk_item(iid, {'slug': f'slug {iid}'}, tag))
    return st.sampled_from(ITEM_VARIANTS).map(lambda v: _mk_item(iid, v, tag))


def _shell_variants():
    out = [dict(slug='slug')]
    for _ in range(30):
        out.append(dict(
            slug=_R.choice([None, 'slug', _rand_text()]), num=_R.choice([None, '7']),
            extras=[_R.choice(GENERIC_SPECS[1])] if _R.randrange(3) == 0 else [],
            id_pos=_R.choice([0, 0, 0, 1, 2, 3]), attrib=_R.choice([None, None, {'a': 'v<'}]),
            tails=_R.choice([None, None, ' ', '\n  ', '\t']),
            id_late=_R.choice([None] * 8 + ['after-first', 'last']),
            p_tail=_R.choice([None] * 6 + ['stray text after p', ' (tail) ']),
            second_md=_R.choice([None] * 5 + ['no-timing', 'no-payload']),
            item_tail=_R.choice([None] * 6 + ['text after an item', '-']),
            lead_text=_R.choice([None] * 7 + ['text before the first child']),
            si_decoy=_R.choice([None] * 6 + ['storyItem', 'ns-item']),
            story_tail=_R.choice([None] * 8 + ['text after a story']),
            odd=_R.choice([None, None, None] + GENERIC_SPECS[1][:6])))
    return out


SHELL_VARIANTS = _shell_variants()


@st.composite
def story(draw, sid, iids, rich=True, timing_mode='any', for_send=False):
    """A <story> element with the given item IDs interleaved with paragraphs.
    -> (element, body children)"""
    body = []
    item_tag = 'storyItem' if for_send else 'item'
    for iid in iids:
        if rich:
            body += draw(para_run())
        body.append(draw(item(iid, rich=rich, tag=item_tag)))
    tm = draw(timing(timing_mode))
    if not rich:
        return B.mk_story(sid, slug=f'slug {sid}', timing=tm, body=body), body
    body += draw(para_run())
    v = draw(st.sampled_from(SHELL_VARIANTS))
    if v.get('odd') is not None:
        body.insert(len(body) // 2, B.from_spec(v['odd']))
    s = B.mk_story(sid, slug=v.get('slug'), num=v.get('num'), timing=tm, body=body,
                   extras_before=[B.from_spec(x) for x in v.get('extras', [])],
                   id_pos=v.get('id_pos', 0))
    if v.get('second_md') and s.find('mosExternalMetadata') is not None:
        # a second metadata block, without timing, after the one that holds the timing
        first = s.find('mosExternalMetadata')
        blk = E('mosExternalMetadata', T('mosScope', 'STORY'), T('mosSchema', 'http://other/schema'),
                E('mosPayload', T('Approved', '1'), T('Owner', 'x')) if v['second_md'] == 'no-timing' else None)
        s.insert(list(s).index(first) + 1, blk)
    if v.get('id_late') and len(s) > 1:
        # the storyID after the first body child, or last: an item / paragraph is then child 0
        idtag = s.find('storyID')
        if idtag is not None:
            s.remove(idtag)
            head = [c for c in s if c.tag not in ('p', 'item', 'storyItem')]
            for h in head:
                s.remove(h)
            kids = list(s)
            for k in kids:
                s.remove(k)
            pos = 1 if v['id_late'] == 'after-first' else len(kids)
            for k in kids[:pos] + [idtag] + head + kids[pos:]:
                s.append(k)
    if v.get('attrib'):
        s.attrib.update(v['attrib'])
    if v.get('tails') is not None:
        for i, c in enumerate(s):
            if i % 2 == 0:
                c.tail = v['tails']
    if v.get('lead_text'):
        s.text = v['lead_text']
    if v.get('si_decoy') and not for_send:
        # directly inside the story, ahead of a real item and with ITS itemID: an element that is not
        # an <item> - the roStorySend spelling <storyItem>, or <item> in a foreign namespace
        its_ = [c for c in s if c.tag == 'item']
        if its_:
            real = its_[-1]
            tag = 'storyItem' if v['si_decoy'] == 'storyItem' else '{urn:other-vendor}item'
            idt = 'itemID' if v['si_decoy'] == 'storyItem' else '{urn:other-vendor}itemID'
            s.insert(list(s).index(its_[0]), E(tag, E(idt, text=real.findtext('itemID')), T('itemSlug', 'not an item')))
    if v.get('item_tail'):
        its_ = [c for c in s if c.tag in ('item', 'storyItem')]
        if its_:
            its_[len(its_) // 2].tail = v['item_tail']
    if v.get('story_tail'):
        s.tail = v['story_tail']
    if v.get('p_tail'):
        # mixed content: text directly inside the story, after a paragraph
        for c in s:
            if c.tag == 'p':
                c.tail = v['p_tail']
                break
    return s, body


def distinct(pool, min_size=0, max_size=6):
    return st.lists(st.sampled_from(pool), unique=True, min_size=min_size, max_size=max_size)


@st.composite
def permutation(draw, seq):
    """A permutation of seq drawn with plain integer choices (st.permutations is not
    usable through fuzz_one_input's byte-string provider, which rejects every buffer)."""
    seq = list(seq)
    out = []
    while seq:
        out.append(seq.pop(draw(st.integers(0, len(seq) - 1)) if len(seq) > 1 else 0))
    return out


def pick(pool, n):
    """n distinct entries of pool in drawn order (n is clipped to the pool size)."""
    pool = list(dict.fromkeys(pool))       # a buggy tree may hand us duplicate IDs
    n = min(n, len(pool))
    if n == 0:
        return st.just([])
    return st.lists(st.sampled_from(pool), unique=True, min_size=n, max_size=n)


# schema values that are prefixes / case variants of each other
SCHEMAS = ['http://schema/1', 'http://schema/10', 'http://schema/1/sub', 'HTTP://SCHEMA/1', 'http://schema/2',
           'http://schema/', 'http://schema/1/', ' http://schema/1', "http://o'neill/schema", 'urn:"q"', 'a]b[c=1']


@st.composite
def ro_metadata(draw, n_md):
    """n_md distinct-tag metadata children: mosExternalMetadata blocks with
    distinct mosSchema plus unique generic tags."""
    out = []
    tags = draw(permutation(['roChannel', 'roEdDur', 'roTrigger', 'macroIn', 'custom']))
    off = draw(st.integers(0, len(SCHEMAS) - 1))
    for i in range(n_md):
        if draw(st.booleans()):
            md = E('mosExternalMetadata', T('mosScope', 'PLAYLIST'),
                   # at most one block per document has no mosSchema at all (i == 1, sometimes)
                   (T('mosSchema', SCHEMAS[(i + off) % len(SCHEMAS)]) if not (i == 1 and off % 3 == 0) else None),
                   E('mosPayload', T('k', draw(st.sampled_from(TEXT_POOL))), draw(generic(depth=1))))
            out.append(md)
        else:
            g = draw(generic(depth=1))
            g.tag = tags[i % len(tags)] + (str(i) if i >= len(tags) else '')
            out.append(g)
    return out


def _twin(x, kind):
    import unicodedata
    if kind == 0:
        d = unicodedata.normalize('NFD', x)
        if d != x:
            return d
        return x + 'e\u0301' if not x.endswith('\u00e9') else x[:-1] + 'e\u0301'
    if kind == 1:
        return x[:1] + '\u200b' + x[1:]          # zero-width space
    if kind == 2:
        return x + '\u00ad'                      # soft hyphen
    return '\ufeff' + x                          # zero-width no-break space


@st.composite
def running_order(draw, min_stories=0, max_stories=6, max_items=4, rich=True,
                  timing_mode='any', simple_ids=False, ro_id=None, allow_no_slug=False, blank_ids=False):
    """-> dict(ro_xml, ro_id, mid)"""
    pool_s = SIMPLE_S if simple_ids else STORY_POOL
    pool_i = SIMPLE_I if simple_ids else ITEM_POOL
    if rich and draw(st.integers(0, 11)) == 0:
        # now and then a long running order / long stories (10+ stories, 8 items)
        max_stories, max_items = max(max_stories, 12), max(max_items, 8)
        min_stories = max(min_stories, min(10, max_stories))
    sids = draw(distinct(pool_s, min_stories, max_stories))
    stories = []
    for sid in sids:
        iids = draw(distinct(pool_i, 0, max_items))
        stories.append(draw(story(sid, iids, rich=rich, timing_mode=timing_mode))[0])
    if rich and stories and draw(st.integers(0, 3)) == 0:
        # genuinely random XML-legal text and attribute value somewhere in the document
        stories[draw(st.integers(0, len(stories) - 1))].append(
            E('p', text=draw(text), attrib={'r': draw(text)}))
    if rich and not simple_ids and draw(st.integers(0, 7)) == 0:
        # "twin" IDs: another story (or another item of the same story) whose ID is a DIFFERENT string
        # that only looks the same - canonically equivalent Unicode, an invisible format character
        kind_ = draw(st.integers(0, 3))
        pairs_ = [(stories, 'storyID')] + [([c for c in s_ if c.tag == 'item'], 'itemID') for s_ in stories]
        pairs_ = [(els, tag) for els, tag in pairs_ if len(els) >= 2]
        if pairs_:
            els, tag = pairs_[draw(st.integers(0, len(pairs_) - 1))]
            a = els[draw(st.integers(0, len(els) - 2))]
            b = els[-1]
            base_ = a.findtext(tag)
            if base_ and b is not a and b.find(tag) is not None:
                tw = _twin(base_, kind_)
                if tw != base_ and tw not in [e.findtext(tag) for e in els]:
                    b.find(tag).text = tw
    if blank_ids and rich and len(stories) >= 2 and draw(st.integers(0, 9)) == 0:
        # one story, or one item, whose ID tag is EMPTY: an element no reference can name
        victim = stories[draw(st.integers(0, len(stories) - 1))]
        its_ = [c for c in victim if c.tag == 'item']
        if its_ and draw(st.booleans()):
            its_[draw(st.integers(0, len(its_) - 1))].find('itemID').text = None
        elif victim.find('storyID') is not None:
            victim.find('storyID').text = None
    n_md = draw(st.integers(0, 3)) if rich else draw(st.integers(0, 1))
    md = draw(ro_metadata(n_md))
    # interleave: every metadata child gets a slot among the stories
    children = list(stories)
    for m in md:
        children.insert(draw(st.integers(0, len(children))), m)
    if rich and stories and draw(st.integers(0, 9)) == 0:
        # running-order level metadata in a foreign namespace whose LOCAL name is 'story', carrying the
        # ID of a real story and placed ahead of it
        k_ = draw(st.integers(0, len(stories) - 1))
        ns_ = '{urn:other-vendor}'
        children.insert(children.index(stories[k_]),
                        E(ns_ + 'story', E(ns_ + 'storyID', text=stories[k_].findtext('storyID')),
                          E(ns_ + 'storySlug', text='archived version'), E('storyID', text='NESTED-IN-NS')))
    ro_id = ro_id or draw(st.sampled_from(['RO1', 'RO ID', 'ro;1&2', 'RO1', 'RO ID', 'ro;1&2', 'RO 7 ', '\u00a0RO8']))
    ed = draw(st.sampled_from([None, '', '2020-01-01T12:30:00', '2021-03-04T05:06:07.5', ' 2020-01-01T12:30:00 ',
                               '\n      2021-03-04T05:06:07\n    ']))
    slug = draw(st.sampled_from(['RO SLUG', 'slug & <co>']))
    if allow_no_slug and draw(st.integers(0, 7)) == 0:
        slug = None                      # merges do not need the slug
    rc = B.ro_create(ro_id, children, slug=slug, ed_start=ed)
    if rich and draw(st.integers(0, 9)) == 0:
        rc.text = 'text directly inside roCreate'
    mid = draw(st.integers(1, 5000))
    order = None
    extras = []
    if rich and draw(st.integers(0, 2)) == 0:
        order = draw(permutation(['mosID', 'ncsID', 'messageID', 'body']))
        extras = draw(st.lists(generic(depth=0), max_size=1))
    root = B.envelope(rc, mid, ncs_id=draw(st.none() | st.just('NCS')), order=order, extras=extras)
    if rich and draw(st.integers(0, 4)) == 0:
        root.attrib.update({'version': '2.8.5', 'changeDate': draw(st.sampled_from(TEXT_POOL)) or 'x'})
        root.find('messageID').text = draw(st.sampled_from(['{}', '00{}', ' {} ', '+{}'])).format(mid)
    pretty = draw(st.booleans())
    return {'ro_xml': B.tostring(root, pretty=pretty), 'ro_id': ro_id, 'mid': mid}


# ------------------------------------------------------------------ messages

REF_WEIGHTS = {
    'none': ['existing'],
    'some': ['existing'] * 6 + ['unknown', 'blank', 'missing'],
    'heavy': ['existing'] * 2 + ['unknown', 'blank', 'missing'],
}


@st.composite
def one_ref(draw, existing, unknown_pool, faults):
    """-> ref ('ID' | '' | None), resolved against `existing` when possible."""
    mode = draw(st.sampled_from(REF_WEIGHTS[faults]))
    if mode == 'existing' and existing:
        return draw(st.sampled_from(existing))
    if mode == 'blank':
        return ''
    if mode == 'missing':
        return None
    return draw(st.sampled_from([u for u in unknown_pool if u not in existing] or ['ZZ']))


@st.composite
def id_list(draw, existing, unknown_pool, faults, min_size=1, max_size=4, degenerate=False):
    """Ordered list of distinct existing IDs, optionally salted with unknown /
    blank entries (faults) or repeated entries (degenerate)."""
    if len(existing) > 5 and draw(st.integers(0, 3)) == 0:
        max_size = max(max_size, 9)          # long lists when the running order allows
    k = draw(st.integers(min_size, max(min_size, min(max_size, len(existing)))))
    ids = list(draw(pick(existing, k))) if existing else []
    if faults != 'none':
        nf = draw(st.sampled_from([0, 0, 1, 1, 2] if faults == 'some' else [1, 1, 2, 3]))
        for _ in range(nf):
            bad = draw(st.sampled_from(['unknown', 'unknown', 'blank']))
            val = '' if bad == 'blank' else draw(st.sampled_from(
                [u for u in unknown_pool if u not in existing and u not in ids] or ['ZZ']))
            if bad == 'unknown' and ids and draw(st.integers(0, 3)) == 0:
                # an unknown ID that only LOOKS like one already listed: the same text with padding
                base = draw(st.sampled_from([i for i in ids if isinstance(i, str) and i.strip()] or ['ZZ']))
                val = draw(st.sampled_from([' ' + base, base + ' ', base + '\n']))
                if val in existing:
                    continue
            if val != '' and val in ids:
                continue
            ids.insert(draw(st.integers(0, len(ids))), val)
    if degenerate and ids and draw(st.integers(0, 3)) == 0:
        ids.insert(draw(st.integers(0, len(ids))), draw(st.sampled_from(ids)))
    while len(ids) < min_size:
        ids.append(draw(st.sampled_from(unknown_pool)))
    return ids


@st.composite
def message(draw, state, ro_id, kinds=B.ALL_KINDS, faults='some', rich=True, mid=None,
            degenerate=False, dup_inserts=True, timing_mode='any', stale_s=(), stale_i=(), foreign_ro=False):
    """Draw one schema-shaped message against `state` [(sid, [iids])].
    -> (kind_label, msg_xml)"""
    kind = draw(st.sampled_from(list(kinds)))
    if foreign_ro and draw(st.integers(0, 11)) == 0:
        # addressed to another running order (merged directly, the roID is not looked at)
        ro_id = draw(st.sampled_from(['OTHER-RO', '', ro_id + ' ']))
    # elements whose ID tag is empty cannot be named by any reference
    state = [(s, [i for i in its if i is not None]) for s, its in state if s is not None]
    sids = [s for s, _ in state]
    used_i = {i for _, its in state for i in its}
    # "unknown" references: never-used IDs and, in histories, IDs that existed earlier
    # and have since been deleted or replaced (stale references)
    UNKNOWN_S = list(globals()['UNKNOWN_S']) + [x for x in stale_s if x not in sids and x is not None][-4:]
    UNKNOWN_I = list(globals()['UNKNOWN_I']) + [x for x in stale_i if x is not None][-4:]
    new_s = [x for x in NEW_S + SIMPLE_S if x not in sids]
    new_i = [x for x in NEW_I + SIMPLE_I if x not in used_i]
    # long histories can use up the pools: always keep a few unused IDs available
    new_s += [g for g in (f'G{n}' for n in range(len(sids) + 6)) if g not in sids][:6]
    new_i += [g for g in (f'H{n}' for n in range(len(used_i) + 6)) if g not in used_i][:6]

    def near(ids, used):
        # new IDs that are *close* to existing ones (same part before / after a comma, other
        # case, surrounding blank, extended): they must still be treated as different IDs
        out = []
        for x in [i for i in ids if i][:3]:
            cand = [x + ',1', x + ' ', ' ' + x, x + "'", x.swapcase()]
            if ',' in x:
                cand += [x.rsplit(',', 1)[0] + ',9.9', 'ZZ,' + x.rsplit(',', 1)[1], x.split(',', 1)[0]]
            out += [c for c in cand if c not in used and c not in out and c.strip()]
        return out
    if rich:
        new_s += near(sids, set(sids))[:4]
        new_i += near(sorted(used_i, key=str), used_i)[:4]

    def sref():
        return draw(one_ref(sids, UNKNOWN_S, faults))

    def story_and_items():
        """(story ref, its item ids) - the story mostly one that has items."""
        with_items = [s for s, its in state if its]
        r = draw(one_ref(with_items or sids, UNKNOWN_S, faults))
        its = dict(state).get(r, []) if isinstance(r, str) else []
        return r, list(its)

    def new_stories(maxn=3, allow_dup=False):
        n = draw(st.integers(1, maxn))
        ids = list(draw(pick(new_s, n)))
        if allow_dup and sids and dup_inserts and draw(st.integers(0, 2)) == 0:
            ids.insert(draw(st.integers(0, len(ids))), draw(st.sampled_from(sids)))
        return [draw(story(i, draw(distinct(ITEM_POOL if rich else SIMPLE_I, 0, 3)), rich=rich,
                           timing_mode=timing_mode))[0] for i in ids]

    def new_items(maxn=3, here=()):
        n = draw(st.integers(1, maxn))
        # item IDs are unique per story only: a carried item may well have an ID that an
        # item of ANOTHER story already uses
        elsewhere = [i for i in sorted(used_i, key=str) if i not in here and i is not None]
        pool = new_i + elsewhere[:3]
        ids = list(draw(pick(pool, n)))
        return [draw(item(i, rich=rich)) for i in ids]

    if kind == 'roStoryAppend':
        body = B.story_append(ro_id, new_stories())
    elif kind == 'roStoryInsert':
        body = B.story_insert(ro_id, sref(), new_stories(allow_dup=True))
    elif kind == 'roStoryReplace':
        tgt = sref()
        ns = new_stories()
        if isinstance(tgt, str) and tgt and draw(st.booleans()):
            # same-ID replacement (a new version of the story), at any position of the payload
            B_id = ns[draw(st.integers(0, len(ns) - 1))].find('storyID')
            B_id.text = tgt
        body = B.story_replace(ro_id, tgt, ns)
    elif kind == 'roStoryMove':
        shape = draw(st.sampled_from(['2', '2', '2', '2', 'end-blank', 'end-absent', '0']
                                     if faults != 'none' else ['2', '2', '2', 'end-blank', 'end-absent']))
        if shape == '0':
            refs = []
        else:
            src = sref()
            if src is None:
                src = ''
            if shape == '2':
                others = [s for s in sids if s != src] if not degenerate else sids
                tgt = draw(one_ref(others, UNKNOWN_S, faults))
                refs = [src, tgt if tgt is not None else '']
            elif shape == 'end-blank':
                refs = [src, '']
            else:
                refs = [src]
        body = B.story_move(ro_id, refs)
    elif kind == 'roStoryDelete':
        body = B.story_delete(ro_id, draw(id_list(sids, UNKNOWN_S, faults, degenerate=degenerate)))
    elif kind == 'roStorySend':
        sid = sref()
        iids = draw(distinct(ITEM_POOL if rich else SIMPLE_I, 0, 3))
        stx, sbody = draw(story(sid if sid else 'tmp', iids, rich=rich, for_send=True,
                                timing_mode=timing_mode))
        head = [c for c in stx if c not in sbody and c.tag != 'storyID']
        post = []
        if rich and head and draw(st.booleans()):
            post = [head.pop()]
        bi = draw(st.integers(0, len(head) + len(post) + 2)) if rich and draw(st.booleans()) else None
        body = B.story_send(ro_id, sid, head=head, body=sbody, post=post,
                            attrib=dict(stx.attrib), body_index=bi)
    elif kind == 'roItemInsert':
        s, its = story_and_items()
        ref = draw(st.sampled_from(['', ''] + its)) if its and faults == 'none' else \
            draw(one_ref(its, UNKNOWN_I, faults)) if draw(st.integers(0, 2)) else ''
        body = B.item_insert(ro_id, s, ref, new_items(here=its))
    elif kind == 'roItemReplace':
        s, its = story_and_items()
        r = draw(one_ref(its, UNKNOWN_I, faults))
        ni = new_items(here=its)
        if isinstance(r, str) and r and draw(st.booleans()):
            ni[draw(st.integers(0, len(ni) - 1))].find('itemID').text = r      # new version, same ID
        body = B.item_replace(ro_id, s, r, ni)
    elif kind == 'roItemMoveMultiple':
        s, its = story_and_items()
        srcs = draw(id_list(its, UNKNOWN_I, faults, min_size=0 if not its else 1,
                            max_size=4, degenerate=degenerate))
        rest = [i for i in its if i not in srcs] if not degenerate else its
        ref = draw(one_ref(rest, UNKNOWN_I, faults)) if rest and draw(st.integers(0, 3)) else ''
        if ref is None:
            ref = ''
        body = B.item_move_multiple(ro_id, s, srcs + [ref])
    elif kind == 'roItemDelete':
        s, its = story_and_items()
        body = B.item_delete(ro_id, s, draw(id_list(its, UNKNOWN_I, faults, degenerate=degenerate)))
    elif kind == 'roMetadataReplace':
        n = draw(st.integers(0, 3))
        kids = draw(ro_metadata(n))
        if draw(st.integers(0, 2)) == 0:
            # the documented use: new running-order start / duration fields
            ed_ = draw(st.sampled_from(['2022-02-02T02:02:02', '2020-01-01T12:30:00', '', '2021-03-04T05:06:07.5']))
            kids.insert(draw(st.integers(0, len(kids))), T('roEdStart', ed_ or None))
        body = B.metadata_replace(ro_id, kids, slug=draw(st.sampled_from(['RO SLUG', 'new slug'])))
    elif kind == 'roReplace':
        inner = draw(running_order(max_stories=4, max_items=3, rich=rich, ro_id=ro_id,
                                   timing_mode=timing_mode))
        from xml.etree import ElementTree as ET
        rc = ET.fromstring(inner['ro_xml']).find('roCreate')
        rc.tag = 'roReplace'
        if rich and draw(st.integers(0, 2)) == 0:
            rc.attrib['version'] = draw(st.sampled_from(TEXT_POOL)) or 'v'
        if rich and draw(st.integers(0, 4)) == 0:
            rc.text = 'text directly inside roReplace'      # mixed content before the first child
        body = rc
    elif kind == 'roReadyToAir':
        body = B.ready_to_air(ro_id)
    elif kind == 'roDelete':
        body = B.ro_delete(ro_id, draw(st.lists(generic(depth=1), max_size=1)) if rich else ())
    elif kind == 'EAStoryReplace':
        tgt = sref()
        ns = new_stories()
        if isinstance(tgt, str) and tgt and draw(st.booleans()):
            ns[draw(st.integers(0, len(ns) - 1))].find('storyID').text = tgt    # new version, same ID
        body = B.ea_story_replace(ro_id, tgt if tgt is not None else '', ns)
    elif kind == 'EAItemReplace':
        s, its = story_and_items()
        r = draw(one_ref(its, UNKNOWN_I, faults))
        ni = new_items(here=its)
        if isinstance(r, str) and r and draw(st.booleans()):
            ni[draw(st.integers(0, len(ni) - 1))].find('itemID').text = r      # new version, same ID
        body = B.ea_item_replace(ro_id, s, r if r is not None else '', ni)
    elif kind == 'EAStoryDelete':
        body = B.ea_story_delete(ro_id, draw(id_list(sids, UNKNOWN_S, faults, degenerate=degenerate)))
    elif kind == 'EAItemDelete':
        s, its = story_and_items()
        ids = draw(id_list(its, UNKNOWN_I, faults, degenerate=degenerate))
        body = B.ea_item_delete(ro_id, s, ids)
    elif kind == 'EAStoryInsert':
        shape = draw(st.sampled_from(['id', 'id', 'id', 'blank', 'absent']))
        if shape == 'id':
            tgt = sref()
            body = B.ea_story_insert(ro_id, tgt, new_stories(allow_dup=True))
        elif shape == 'blank':
            body = B.ea_story_insert(ro_id, '', new_stories(allow_dup=True))
        else:
            body = B.ea_story_insert(ro_id, None, new_stories(allow_dup=True), with_target=False)
    elif kind == 'EAItemInsert':
        s, its = story_and_items()
        r = draw(one_ref(its, UNKNOWN_I, faults)) if draw(st.integers(0, 2)) else ''
        body = B.ea_item_insert(ro_id, s, r if r is not None else '', new_items(here=its))
    elif kind == 'EAStorySwap':
        ids = draw(id_list(sids, UNKNOWN_S, faults, min_size=2, max_size=2))[:2]
        if degenerate and sids and draw(st.integers(0, 2)) == 0:
            ids = [ids[0], ids[0]]
        while len(ids) < 2:
            ids.append('ZZ-unknown')
        body = B.ea_story_swap(ro_id, ids[0], ids[1],
                               target=draw(st.sampled_from(['absent', 'empty'])))
    elif kind == 'EAItemSwap':
        s, its = story_and_items()
        ids = draw(id_list(its, UNKNOWN_I, faults, min_size=2, max_size=2))[:2]
        if degenerate and its and draw(st.integers(0, 2)) == 0:
            ids = [ids[0], ids[0]]
        while len(ids) < 2:
            ids.append('ZZ-unknown-item')
        if all(i == '' for i in ids):
            ids[0] = 'ZZ-unknown-item'     # keep at least one itemID text? (still an itemID tag)
        body = B.ea_item_swap(ro_id, s, ids[0], ids[1])
    elif kind == 'EAStoryMove':
        srcs = draw(id_list(sids, UNKNOWN_S, faults, degenerate=degenerate))
        rest = [x for x in sids if x not in srcs] if not degenerate else sids
        shape = draw(st.sampled_from(['id', 'id', 'id', 'absent'] + (['blank'] if faults != 'none' else [])))
        if shape == 'absent' or (shape == 'id' and not rest and faults == 'none'):
            body = B.ea_story_move(ro_id, None, srcs, with_target=False)
        elif shape == 'blank':
            body = B.ea_story_move(ro_id, '', srcs)
        else:
            body = B.ea_story_move(ro_id, draw(one_ref(rest, UNKNOWN_S, faults)), srcs)
    elif kind == 'EAItemMove':
        s, its = story_and_items()
        srcs = draw(id_list(its, UNKNOWN_I, faults, degenerate=degenerate))
        if not any(x != '' for x in srcs) and not srcs:
            srcs = ['ZZ-unknown-item']
        rest = [x for x in its if x not in srcs] if not degenerate else its
        r = draw(one_ref(rest, UNKNOWN_I, faults))
        body = B.ea_item_move(ro_id, s, r if r is not None else '', srcs)
    else:
        raise ValueError(kind)
    if mid is None:
        mid = draw(st.integers(1, 99999))
    root = B.envelope(body, mid, ncs_id=draw(st.none() | st.just('NCS')),
                      order=(draw(st.sampled_from([None, None, None, ['mosID', 'body', 'messageID'],
                                                   ['body', 'ncsID', 'mosID', 'messageID']])) if rich else None))
    return kind, B.tostring(root, pretty=draw(st.booleans()))


STORY_KINDS = ['roStoryAppend', 'roStoryInsert', 'roStoryReplace', 'roStoryMove', 'roStoryDelete',
               'roStorySend', 'EAStoryReplace', 'EAStoryDelete', 'EAStoryInsert', 'EAStorySwap',
               'EAStoryMove']
ITEM_KINDS = ['roItemInsert', 'roItemReplace', 'roItemMoveMultiple', 'roItemDelete',
              'EAItemReplace', 'EAItemDelete', 'EAItemInsert', 'EAItemSwap', 'EAItemMove']
META_KINDS = ['roMetadataReplace', 'roReplace', 'roReadyToAir', 'roDelete']


@st.composite
def step_case(draw, kinds=B.ALL_KINDS, faults='some', rich=True, min_stories=0,
              max_stories=6, max_items=4, degenerate=False, timing_mode='any',
              simple_ids=False, allow_no_slug=False, foreign_ro=True):
    from xml.etree import ElementTree as ET
    from . import xmlcmp
    ro = draw(running_order(min_stories=min_stories, max_stories=max_stories,
                            max_items=max_items, rich=rich, timing_mode=timing_mode,
                            simple_ids=simple_ids, allow_no_slug=allow_no_slug, blank_ids=allow_no_slug))
    state = xmlcmp.state_of(ET.fromstring(ro['ro_xml']))
    kind, msg_xml = draw(message(state, ro['ro_id'], kinds=kinds, faults=faults, rich=rich,
                                 degenerate=degenerate, timing_mode=timing_mode, foreign_ro=foreign_ro))
    if rich and draw(st.integers(0, 9)) == 0:
        # the message as a str that still carries the declaration of the encoding it was decoded from
        msg_xml = '<?xml version="1.0" encoding="%s"?>' % draw(st.sampled_from(['ISO-8859-1', 'windows-1252', 'UTF-16'])) + msg_xml
    return {'ro_xml': ro['ro_xml'], 'msg_xml': msg_xml}


# --------------------------------------------------------------- enumerators

LAYOUTS = ['none', 'before', 'between', 'after', 'mixed', 'anon', 'twins']


def plain_story(sid, iids=(), timed=True):
    body = []
    for i in iids:
        body.append(B.mk_item(i, slug=f'slug {i}'))
    tm = B.timing_block({'StoryDuration': '5'}) if timed else None
    return B.mk_story(sid, slug=f'slug {sid}', timing=tm, body=body)


def ro_with_layout(sids, layout, ro_id='RO1', mid=1000, items_for=None):
    """Running order text whose stories sit in the given metadata layout."""
    stories = [plain_story(s, (items_for or {}).get(s, ())) for s in sids]
    if layout == 'anon':
        # 'mixed' plus a story whose storyID tag is empty (no reference can name it), second in line
        anon = plain_story('x', ['I0', 'x'])
        anon.find('storyID').text = None
        anon.findall('item')[1].find('itemID').text = None
        stories.insert(min(1, len(stories)), anon)
    md = lambda i: T(f'roMeta{i}', f'm{i}')  # noqa: E731
    if layout == 'twins' and sids:
        # 'mixed' plus, AHEAD of the real ones: stories whose IDs only look like the last story's ID
        # (zero-width space, soft hyphen, other case), and a foreign-namespace <story> carrying that very ID
        last = sids[-1]
        ns_ = '{urn:other-vendor}'
        look = [plain_story(_twin(last, 1), ['I0']), plain_story(_twin(last, 2)), plain_story(last.lower() + ' ')]
        stories = look + [E(ns_ + 'story', E(ns_ + 'storyID', text=last), E(ns_ + 'storySlug', text='not a story'))] + stories
    if layout == 'none':
        ch = stories
    elif layout == 'before':
        ch = [md(0), md(1)] + stories
    elif layout == 'after':
        ch = stories + [md(0), md(1)]
    elif layout == 'between':
        ch = []
        for i, s in enumerate(stories):
            ch.append(s)
            ch.append(md(i))
        ch = [md(99)] + ch
    else:
        ch = [md(0)]
        for i, s in enumerate(stories):
            ch.append(s)
            if i % 2 == 0:
                ch.append(md(i + 1))
    rc = B.ro_create(ro_id, ch, ed_start='2020-01-01T12:30:00')
    return B.tostring(B.envelope(rc, mid))


def ordered_tuples(ids, maxlen):
    for k in range(1, maxlen + 1):
        yield from itertools.permutations(ids, k)


def enum_story_messages(sids, ro_id='RO1', max_sources=3, mid=2000, unknown='ZZ-unknown'):
    """Every story-level message shape x every reference assignment over `sids`
    (plus blank / absent / unknown targets).  Yields (label, msg_xml)."""
    def env(body):
        return B.tostring(B.envelope(body, mid))
    targets = list(sids) + ['', None, unknown]
    new1 = [plain_story('N0', ['J0'])]
    new2 = [plain_story('N0', ['J0']), plain_story('N1')]
    yield 'roStoryAppend', env(B.story_append(ro_id, new1))
    yield 'roStoryAppend', env(B.story_append(ro_id, new2))
    for t in targets:
        for pl in (new1, new2):
            yield 'roStoryInsert', env(B.story_insert(ro_id, t, pl))
            yield 'roStoryReplace', env(B.story_replace(ro_id, t, pl))
            yield 'EAStoryReplace', env(B.ea_story_replace(ro_id, t, pl))
            yield 'EAStoryInsert', env(B.ea_story_insert(ro_id, t, pl))
        if t:
            # same-ID replacement / re-send
            yield 'roStoryReplace', env(B.story_replace(ro_id, t, [plain_story(t, ['J1'])]))
            yield 'EAStoryReplace', env(B.ea_story_replace(ro_id, t, [plain_story(t, ['J1'])]))
            yield 'roStoryReplace', env(B.story_replace(ro_id, t, [plain_story('N0'), plain_story(t, ['J1'])]))
            yield 'EAStoryReplace', env(B.ea_story_replace(ro_id, t, [plain_story('N0'), plain_story(t, ['J1'])]))
            # a replacement that also carries a story whose ID another story of the running order has
            # (the outcome for that story is not prescribed; everything the message does not name is)
            for other in [x for x in sids if x and x != t][-1:]:
                yield 'roStoryReplace', env(B.story_replace(ro_id, t, [plain_story(t, ['J1']), plain_story(other, ['J2'])]))
                yield 'EAStoryReplace', env(B.ea_story_replace(ro_id, t, [plain_story(other, ['J2']), plain_story('N0')]))
        body = [P('para'), B.mk_item('J0', slug='x'), P('(note)')]
        body[1].tag = 'storyItem'
        yield 'roStorySend', env(B.story_send(ro_id, t, head=[T('storySlug', 'resent')], body=body))
    yield 'EAStoryInsert', env(B.ea_story_insert(ro_id, None, new2, with_target=False))
    # roElementAction without any element_target element
    yield 'EAStoryReplace', env(B.element_action(ro_id, 'REPLACE', None, [plain_story('N0', ['J0'])]))
    yield 'EAStoryReplace', env(B.element_action(ro_id, 'REPLACE', None, [plain_story(sids[0] if sids else 'N0')]))
    for t in ('', None, unknown):
        # no usable reference, but the carried story has the ID of an existing one
        for ex in list(sids)[:2]:
            yield 'roStoryReplace', env(B.story_replace(ro_id, t, [plain_story(ex, ['J1'])]))
            yield 'EAStoryReplace', env(B.ea_story_replace(ro_id, t, [plain_story(ex, ['J1'])]))
    # duplicates inside inserts: existing story at each position of the payload
    for t in list(sids) + ['']:
        for d in sids[:2]:
            for pos in range(3):
                pl = [plain_story('N0'), plain_story('N1')]
                pl.insert(pos, plain_story(d))
                yield 'roStoryInsert', env(B.story_insert(ro_id, t, pl))
                yield 'EAStoryInsert', env(B.ea_story_insert(ro_id, t, pl))
    # moves
    yield 'roStoryMove', env(B.story_move(ro_id, []))
    for s in list(sids) + [unknown, '']:
        yield 'roStoryMove', env(B.story_move(ro_id, [s]))
        for t in targets:
            if t is None:
                continue
            yield 'roStoryMove', env(B.story_move(ro_id, [s, t]))
    pool = list(sids) + [unknown]
    for srcs in ordered_tuples(pool, max_sources):
        yield 'roStoryDelete', env(B.story_delete(ro_id, list(srcs)))
        yield 'EAStoryDelete', env(B.ea_story_delete(ro_id, list(srcs)))
        for t in targets:
            if t is None:
                yield 'EAStoryMove', env(B.ea_story_move(ro_id, None, list(srcs), with_target=False))
            else:
                yield 'EAStoryMove', env(B.ea_story_move(ro_id, t, list(srcs)))
    # the same source named twice (with and without another one in between)
    for rep in ([a, a] for a in sids[:3]):
        more = [x for x in sids if x != rep[0]][:1]
        for srcs in (rep, rep[:1] + more + rep[:1], more + rep):
            for t in [x for x in targets if x is not None and x not in srcs][:3]:
                yield 'EAStoryMove', env(B.ea_story_move(ro_id, t, list(srcs)))
    for a in pool + ['']:
        for b in pool + ['']:
            yield 'EAStorySwap', env(B.ea_story_swap(ro_id, a, b))


def enum_item_messages(sid, iids, ro_id='RO1', max_sources=3, mid=2000,
                       story_refs=None, unknown='ZZ-unknown-item'):
    """Every item-level message shape x every reference assignment inside story
    `sid` with items `iids`."""
    def env(body):
        return B.tostring(B.envelope(body, mid))
    new1 = [B.mk_item('J0', slug='new 0')]
    new2 = [B.mk_item('J0', slug='new 0'), B.mk_item('J1', slug='new 1')]
    refs = list(iids) + ['', unknown]
    for s in (story_refs if story_refs is not None else [sid]):
        for r in refs:
            for pl in (new1, new2):
                yield 'roItemInsert', env(B.item_insert(ro_id, s, r, pl))
                yield 'EAItemInsert', env(B.ea_item_insert(ro_id, s, r, pl))
                yield 'roItemReplace', env(B.item_replace(ro_id, s, r, pl))
                yield 'EAItemReplace', env(B.ea_item_replace(ro_id, s, r, pl))
            if r and r in iids:
                same = [B.mk_item('J0', slug='new 0'), B.mk_item(r, slug='new version')]
                yield 'roItemReplace', env(B.item_replace(ro_id, s, r, same))
                yield 'EAItemReplace', env(B.ea_item_replace(ro_id, s, r, same))
        yield 'roItemInsert', env(B.item_insert(ro_id, s, None, new2))
        for r in ('', None, unknown):
            # no usable reference, but the carried item has the ID of an existing one
            for ex in list(iids)[:2]:
                again = [B.mk_item(ex, slug='same id, no reference')]
                yield 'roItemReplace', env(B.item_replace(ro_id, s, r, again))
                yield 'EAItemReplace', env(B.ea_item_replace(ro_id, s, r, again))
        pool = list(iids) + [unknown]
        yield 'roItemMoveMultiple', env(B.item_move_multiple(ro_id, s, ['']))
        for srcs in ordered_tuples(pool, max_sources):
            yield 'roItemDelete', env(B.item_delete(ro_id, s, list(srcs)))
            yield 'EAItemDelete', env(B.ea_item_delete(ro_id, s, list(srcs)))
            for r in refs:
                yield 'roItemMoveMultiple', env(B.item_move_multiple(ro_id, s, list(srcs) + [r]))
                yield 'EAItemMove', env(B.ea_item_move(ro_id, s, r, list(srcs)))
        # the same source named twice (with and without another one in between)
        for a in list(iids)[:3]:
            more = [x for x in iids if x != a][:1]
            for srcs in ([a, a], [a] + more + [a], more + [a, a]):
                for r in [x for x in refs if x not in srcs][:3]:
                    yield 'roItemMoveMultiple', env(B.item_move_multiple(ro_id, s, list(srcs) + [r]))
                    yield 'EAItemMove', env(B.ea_item_move(ro_id, s, r, list(srcs)))
        for a in pool + ['']:
            for b in pool + ['']:
                yield 'EAItemSwap', env(B.ea_item_swap(ro_id, s, a, b))
