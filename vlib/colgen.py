"""Generators for message collections (C09, C10, C18, C19)."""
import warnings
from xml.etree import ElementTree as ET

from hypothesis import strategies as st

from . import env  # noqa: F401
from . import build, gen, xmlcmp

from mosromgr.mostypes import MosFile, RunningOrder

# distinct numeric message IDs of mixed digit counts; consecutive entries sort
# differently as strings and as numbers (9/10, 99/100, ...)
MID_POOL = [3, 9, 10, 11, 20, 99, 100, 101, 200, 999, 1000, 1001, 2000, 9999, 10000, 10001,
            54321, 99999, 100000, 1234567,
            # zero, and values around and beyond 32-bit boundaries
            0, 2 ** 30 + 7, 2 ** 31 - 48, 2 ** 31, 2 ** 32 + 5, 10 ** 12]


@st.composite
def collection(draw, min_msgs=0, max_msgs=8, faults='some', rich=False, with_delete='maybe',
               kinds=None, create_anywhere=True, pad_ids=False, allow_no_slug=False):
    """-> {'docs': [roCreate, msg...] in ascending message-ID order, 'ro_id', 'mids'}
    Messages are drawn one after the other against the state the (real) running
    order has reached, so most of them apply; `faults` salts in failing ones."""
    kinds = list(kinds or [k for k in build.ALL_KINDS if k != 'roDelete'])
    n = draw(st.integers(min_msgs, max_msgs))
    mids = sorted(draw(st.lists(st.sampled_from(MID_POOL), unique=True, min_size=n + 2, max_size=n + 2)))
    ro = draw(gen.running_order(min_stories=1, max_stories=4, max_items=3, rich=rich, simple_ids=not rich,
                                allow_no_slug=allow_no_slug))
    root = ET.fromstring(ro['ro_xml'])
    # the roCreate need not carry the lowest message ID of the collection
    create_mid = mids[0]
    if create_anywhere and draw(st.integers(0, 2)) == 0:
        create_mid = mids.pop(draw(st.integers(0, len(mids) - 1)))
        mids = [create_mid] + mids
    root.find('messageID').text = str(create_mid)
    ro_xml = ET.tostring(root, encoding='unicode')
    docs = [ro_xml]
    sim = RunningOrder.from_string(ro_xml)
    delete_at = None
    if with_delete == 'always' or (with_delete == 'maybe' and draw(st.booleans())):
        delete_at = draw(st.integers(0, n)) if with_delete == 'maybe' and draw(st.integers(0, 2)) == 0 else n
    with warnings.catch_warnings():
        warnings.simplefilter('ignore')
        k = 1
        for i in range(n + 1):
            if i == delete_at:
                body = build.ro_delete(ro['ro_id'])
                docs.append(build.tostring(build.envelope(body, mids[k])))
                k += 1
                if i == n:
                    break
            if i == n:
                break
            state = xmlcmp.state_of(ET.fromstring(str(sim)))
            _kind, text = draw(gen.message(state, ro['ro_id'], kinds=kinds, faults=faults, rich=rich,
                                           mid=mids[k], degenerate=False))
            k += 1
            docs.append(text)
            if not sim.completed:
                try:
                    sim += MosFile.from_string(text)
                except Exception:
                    pass
    if pad_ids:
        # int() accepts surrounding whitespace and leading zeros: so must the ordering
        out = []
        for d in docs:
            how = draw(st.sampled_from(['', '', 'space', 'newline', 'zeros']))
            if how:
                r = ET.fromstring(d)
                m = r.find('messageID')
                m.text = {'space': f' {m.text} ', 'newline': f'\n    {m.text}\n  ', 'zeros': '00' + m.text}[how]
                d = ET.tostring(r, encoding='unicode')
            out.append(d)
        docs = out
    if pad_ids:
        # envelopes in another shape: the messageID after the body, and an unrelated header
        # element (before it) that has a messageID / roID of its own nested inside
        out = []
        for d in docs:
            if draw(st.integers(0, 2)) == 0:
                r = ET.fromstring(d)
                m = r.find('messageID')
                r.remove(m)
                r.append(m)
                hdr = ET.Element('transportHeader')
                ET.SubElement(hdr, 'messageID').text = draw(st.sampled_from(['5', '77777777', 'x']))
                ET.SubElement(hdr, 'roID').text = 'OTHER'
                r.insert(0, hdr)
                d = ET.tostring(r, encoding='unicode')
            out.append(d)
        docs = out
    # header elements differ from document to document (a main and a backup NCS, or none named):
    # nothing but the numeric messageID decides the order
    out = []
    for d in docs:
        how = draw(st.sampled_from(['', '', 'NCS.MAIN', 'NCS.BACKUP', 'a', 'absent']))
        if how:
            r = ET.fromstring(d)
            for old_ in r.findall('ncsID'):
                r.remove(old_)
            if how != 'absent':
                e = ET.Element('ncsID')
                e.text = how
                r.insert(draw(st.integers(0, 1)), e)
            d = ET.tostring(r, encoding='unicode')
        out.append(d)
    docs = out
    return {'docs': docs, 'ro_id': ro['ro_id'], 'has_delete': delete_at is not None}
