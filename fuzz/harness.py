#!/venv/bin/python
"""atheris (libFuzzer) campaign driving a check's Hypothesis strategy through
`test.hypothesis.fuzz_one_input`, with Python-level coverage of mosromgr as feedback.

    harness.py <target: c08|c12> <out.json> [libFuzzer args: -runs=N -seed=S corpus_dir]

The semantic oracle of the owning check runs inside the target; failures are bucketed by
signature and written (with the concrete case) to <out.json>, rewritten whenever a new
signature appears and every 500 executions (libFuzzer leaves through _exit: atexit
handlers do not run)."""
import json
import os
import sys

HERE = os.path.dirname(os.path.dirname(os.path.abspath(__file__)))
sys.path.insert(0, HERE)
sys.path.append(os.path.join(HERE, '.deps'))
os.chdir(HERE)
target, out_path = sys.argv[1], sys.argv[2]
argv = [sys.argv[0]] + sys.argv[3:]

import atheris  # noqa: E402

with atheris.instrument_imports(include=['mosromgr']):
    from vlib import env  # noqa: E402,F401  (imports mosromgr -> instrumented)

from hypothesis import HealthCheck, given, settings  # noqa: E402
from vlib import drive, gen, build  # noqa: E402
from vlib.findings import Collector, h64  # noqa: E402

STATE = {'n': 0, 'last_dump': 0}


def dump(col):
    doc = {'evaluations': col.evaluations, 'nontrivial': len(col.nontrivial),
           'classes': dict(col.classes), 'samples': col.samples[:4],
           'failures': {s: {k: f[k] for k in ('case', 'detail', 'expected', 'observed', 'count', 'size')}
                        for s, f in col.failures.items()}}
    tmp = out_path + '.tmp'
    with open(tmp, 'w') as f:
        json.dump(doc, f, default=str)
    os.replace(tmp, out_path)


if target == 'c08':
    from checks import c08 as mod
    col = Collector(mod.PROP)
    strategy = mod.document()

    def one(d):
        before = len(col.failures)
        mod.record_doc(col, d['doc'], (d['classes'] or ['plain']) + ['fuzz'], sources=('str', 'bytes'),
                       encodings=False)
        case = {'variants': d['variants']}
        col.record(case, True, ['metamorphic', 'fuzz'], mod.judge_meta(case), key=h64(d['doc'], 'meta'))
        return before
elif target == 'c12':
    from checks import c12 as mod
    col = Collector(mod.PROP)
    strategy = gen.step_case(kinds=list(build.ALL_KINDS), faults='heavy', rich=True, degenerate=True)

    def one(case):
        before = len(col.failures)
        mod.record(col, drive.eval_step(case))
        col.classes['fuzz'] += 1
        return before
else:
    raise SystemExit(f'unknown target {target}')


@settings(database=None, deadline=None, suppress_health_check=list(HealthCheck))
@given(strategy)
def test(case):
    before = one(case)
    STATE['n'] += 1
    if len(col.failures) != before or STATE['n'] - STATE['last_dump'] >= 500:
        STATE['last_dump'] = STATE['n']
        dump(col)


dump(col)
atheris.Setup(argv, test.hypothesis.fuzz_one_input)
atheris.Fuzz()
