#!/venv/bin/python
"""Copy replay files into the committed regression tier.
usage: tools/keep.py <PROP> [substring-of-signature ...]   (from /verif)"""
import glob, json, os, re, sys
prop = sys.argv[1]
subs = sys.argv[2:]
os.makedirs(f'regress/{prop}', exist_ok=True)
for p in sorted(glob.glob(f'replays/{prop}-*.json')):
    d = json.load(open(p))
    sig = d['signature']
    if subs and not any(s in sig for s in subs):
        continue
    name = re.sub(r'[^A-Za-z0-9=+-]+', '_', sig)[:110]
    out = f'regress/{prop}/{name}.json'
    json.dump({'property': prop, 'signature_when_found': sig, 'case': d['case'],
               'detail_when_found': d['detail']}, open(out, 'w'), indent=1)
    print('kept', out)
