#!/venv/bin/python
"""Regenerate MANIFEST.json from the table below (run from /verif)."""
import json
import os

HERE = os.path.dirname(os.path.dirname(os.path.abspath(__file__)))

CHECKS = {
    'C01': ('exhaustive small-scope enumeration + Hypothesis single steps + rule-based histories vs reference model',
            'Exhaustive for <= 4 (quick) / 6 (thorough) stories x 7 layouts (metadata anywhere, anonymous stories, look-alike IDs and foreign-namespace decoys) x all 11 story-level kinds x all '
            'ordered source tuples x all targets; random beyond. Exploration: absence is shown only inside the enumerated scope.', '7/C01'),
    'C02': ('exhaustive small-scope enumeration + Hypothesis single steps + rule-based histories vs reference model',
            'Exhaustive for <= 4/6 items x 7 layouts (paragraphs, storyID last, anonymous / look-alike / decoy items) x all 9 item-level kinds x all ordered source tuples x all references.', '7/C02'),
    'C03': ('frame-equality oracle over exhaustive scopes + Hypothesis rich documents + histories',
            'Every un-named element compared structurally before/after for every reference shape (existing/unknown/blank/missing).', '7/C03'),
    'C04': ('round-trip/structural equality of carried payloads (Hypothesis) with independent roStorySend conversion',
            'Random rich payloads; independent reimplementation of the roStorySend->story conversion as oracle.', '7/C04'),
    'C04': ('structural equality of carried payloads against the message text (Hypothesis) + independent roStorySend conversion',
            'Random rich payloads for all 12 payload-carrying kinds; roStorySend storyBody at every sibling index (exhaustive small scope).', '7/C04'),
    'C05': ('fault placement enumeration (every position k of the bad ID) + Hypothesis + metamorphic non-strict collections',
            'str(ro) before == after for every raised merge in the enumerated scopes and random histories.', '7/C05'),
    'C06': ('exhaustive 2^n unresolvable/duplicate subsets + Hypothesis vs reference model of warnings',
            'All subsets of n<=4/5 named elements for the 7 warn-and-continue kinds; warnings compared as multisets of categories.', '7/C06'),
    'C07': ('Hypothesis histories (prefix, roDelete, one message of each of 26 classes) vs completion invariants, live + round-tripped + collections',
            'Every message class is sent to a completed running order in every generated history; content/envelope compared structurally.', '7/C07'),
    'C08': ('exhaustive shape enumeration + Hypothesis documents + damaged text, differential across sources and warning filters',
            'All roElementAction shapes (9 ops x 8 targets x 8 sources), 16 tags x 24 envelope orders, x {str,bytes,file} x {default,error}; real -W error subprocess sample.', '7/C08'),
    'C09': ('differential: MosCollection.merge vs hand fold over freshly parsed messages (Hypothesis collections, fault placements)',
            'Self-consistency oracle between two API paths, strict and non-strict, three constructors.', '7/C09'),
    'C10': ('metamorphic permutation invariance (all permutations for small lists) across three constructors',
            'Every supplied order must give the same reader order and merged text; IDs of mixed digit counts.', '7/C10'),
    'C11': ('exhaustive count/ID-pattern enumeration evaluated in fresh python / -O / -OO interpreters',
            'All combinations of 0..3 roCreates x 0..3 roDeletes x 0..3 others x 9 ID patterns x allow_incomplete, through strings / files / readers / a paged fake bucket, in three interpreter configurations.', '7/C11'),
    'C12': ('exception containment with (type, innermost frame) bucketing over enumerations, Hypothesis steps, histories, collections',
            'Any non-mosromgr exception leaving classification or `ro += msg` is a violation; buckets keep the search alive.', '7/C12'),
    'C13': ('Hypothesis rule-based machine over four running orders (live objects vs fresh copies, re-used objects)',
            'Independence: str() and accessor view of every merged message object, twin running orders compared structurally after every step, no Element object or attribute dictionary shared between any two trees, edited objects merged again, readers re-used.', '7/C13'),
    'C14': ('round-trip (write/read) invariant at every state of Hypothesis histories',
            'Serialise, re-read, compare text/tree/state; envelope invariants.', '7/C14'),
    'C15': ('exhaustive optional-data subsets + Hypothesis documents + histories; accessor totality and agreement with direct XML reads',
            'All 11 timing shapes per story (incl. present-but-empty tags) for <= 2 (quick) / 3 (thorough) stories; every documented accessor called.', '7/C15'),
    'C16': ('Hypothesis duration/time vectors + histories vs values recomputed from the XML',
            'Arithmetic identities recomputed independently (datetime.fromisoformat, float sums) with stated tolerances.', '7/C16'),
    'C17': ('Hypothesis paragraph/item interleavings + histories vs independent reading of the story children',
            'Filter and order oracle reimplemented from the property statement.', '7/C17'),
    'C18': ('differential across {file,str,bytes,S3} with a model-faithful fake S3; listing oracle over generated buckets',
            'The real S3 helper bodies run against the fake; pages, prefixes and suffixes generated.', '7/C18'),
    'C19': ('differential CLI vs library over generated file sets and option combinations (in-process + subprocess sample)',
            'stdout/stderr/status/-o file compared with MosFile/MosCollection results.', '7/C19'),
    'C20': ('exhaustive message shapes + Hypothesis messages; accessors vs IDs read from the message text',
            '26 classes x 1..4 sources x target present/blank/absent x compact/pretty.', '7/C20'),
}


def main():
    checks = []
    for pid, (tech, text, ref) in sorted(CHECKS.items()):
        checks.append({
            'property_id': pid,
            'quick_cmd': f'/venv/bin/python -B run_check.py {pid} --tier quick',
            'thorough_cmd': f'/venv/bin/python -B run_check.py {pid} --tier thorough',
            'evidence_file': f'evidence/{pid}.json',
            'replay_cmd_template': f'/venv/bin/python -B run_check.py {pid} --replay {{path}}',
            'engine': 'pbt',
            'level_claimed': {'category': 'exploration', 'text': text, 'design_ref': f'DESIGN.md section {ref}'},
            'level_note': 'Trusted base: CPython 3.12 xml.etree as the independent reader of the serialised running order, '
                          'the reference model in vlib/model.py, Hypothesis 6.168 as generator. Holds for the cases explored, '
                          'never a proof of absence.',
            'technique': tech,
        })
    claimed = set(CHECKS)
    allp = [json.loads(l)['id'] for l in open(os.path.join(HERE, 'properties.jsonl'))]
    na = [{'property_id': p, 'reason': 'check not built yet in this snapshot (planned, see DESIGN.md Appendix B); '
           'the technique applies'} for p in allp if p not in claimed]
    man = {
        'version': 1,
        'setup_cmd': '/venv/bin/python -B tools/setup.py',
        'hooks': {
            'guard': 'BBC_MOSROMGR_VERIF',
            'enable': 'no source hooks are needed: every observable is public API (str(ro), ro.xml, warnings, exceptions, '
                      'CLI output, the lazily created S3 handle attributes); the guard variable is unused',
            'baseline_off_cmd': 'cd /repo && /venv/bin/python -m pytest -ra -q -p no:cacheprovider --timeout=900 '
                                '--continue-on-collection-errors',
            'source_commits': [],
            'add_only': True,
        },
        'engines': [
            {'name': 'pbt', 'path': 'run_check.py', 'serves_properties': sorted(claimed),
             'kind_free_text': 'property-based testing: exhaustive small-scope enumeration (itertools + multiprocessing), '
                               'Hypothesis strategies and rule-based state machines, collect-don\'t-raise with signature '
                               'bucketing, own greedy structural shrinker, reference model + frame/round-trip/metamorphic oracles'},
        ],
        'checks': checks,
        'not_applicable': na,
        'notes': 'All checks: exit 0 = held on everything explored, exit 1 + VIOLATION line, exit 2 = harness error. '
                 'VERIF_SEED selects the Hypothesis seed; VERIF_REPO_DIR (default /repo) the tree under test. '
                 'Genuine defects of the pinned tree were repaired by fix: commits in /repo (see known_findings.json).',
    }
    with open(os.path.join(HERE, 'MANIFEST.json'), 'w') as f:
        json.dump(man, f, indent=1)
    print('MANIFEST.json:', len(checks), 'checks;', len(na), 'not yet claimed')


if __name__ == '__main__':
    main()
