#!/venv/bin/python
"""setup_cmd: offline dependency bootstrap + self-test.  Exit 0 when the checks can run."""
import importlib
import os
import subprocess
import sys

HERE = os.path.dirname(os.path.dirname(os.path.abspath(__file__)))
DEPS = os.path.join(HERE, '.deps')
WHEELS = '/opt/veriftools/wheels'


def have(mod):
    try:
        importlib.import_module(mod)
        return True
    except Exception:
        return False


def pip_install(*pkgs):
    os.makedirs(DEPS, exist_ok=True)
    cmd = [sys.executable, '-m', 'pip', 'install', '--no-index', '--find-links', WHEELS,
           '--target', DEPS, '--quiet', '--disable-pip-version-check'] + list(pkgs)
    print('setup:', ' '.join(cmd))
    return subprocess.call(cmd) == 0


def main():
    sys.path.append(DEPS)
    if not have('hypothesis'):
        if not pip_install('hypothesis') or not have('hypothesis'):
            print('setup: hypothesis is not importable and could not be installed')
            return 1
    if not have('atheris'):
        # optional: only the thorough tiers of C08/C12 use it and they fall back without it
        pip_install('atheris')
        importlib.invalidate_caches()
        print('setup: atheris', 'available' if have('atheris') else 'NOT available (fuzz campaigns fall back)')
    sys.path.insert(0, HERE)
    os.chdir(HERE)
    from vlib import env, drive  # noqa: F401  (asserts mosromgr comes from the repository)
    ev = drive.eval_step({
        'ro_xml': '<mos><mosID>M</mosID><messageID>1</messageID><roCreate><roID>R</roID><roSlug>s</roSlug>'
                  '<story><storyID>A</storyID></story><story><storyID>B</storyID></story></roCreate></mos>',
        'msg_xml': '<mos><mosID>M</mosID><messageID>2</messageID><roStoryMove><roID>R</roID>'
                   '<storyID>B</storyID><storyID>A</storyID></roStoryMove></mos>'})
    assert ev.obs.cls_name == 'StoryMove', ev.obs.cls_name
    print('setup: ok (mosromgr from', env.REPO_DIR + ')')
    return 0


if __name__ == '__main__':
    sys.exit(main())
