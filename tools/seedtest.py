#!/venv/bin/python
"""Evaluate one seeded change (patch + demonstration) against the checks.

    tools/seedtest.py <patch.diff> [--demo demo.py] [--props C01,C05 | --all] [--tier quick]

Creates a scratch worktree of /repo HEAD outside /repo and /verif, applies the patch,
confirms the pinned test suite still passes, runs the demonstration with and without
the patch, runs the requested checks with VERIF_REPO_DIR pointing at the scratch tree,
prints one JSON line per step, and removes the worktree."""
import argparse
import json
import os
import shutil
import subprocess
import sys
import tempfile

HERE = os.path.dirname(os.path.dirname(os.path.abspath(__file__)))
PY = '/venv/bin/python'


def sh(cmd, cwd=None, env=None, timeout=3600):
    r = subprocess.run(cmd, cwd=cwd, env=env, capture_output=True, text=True, timeout=timeout)
    return r.returncode, r.stdout, r.stderr


def main():
    ap = argparse.ArgumentParser()
    ap.add_argument('patch')
    ap.add_argument('--demo')
    ap.add_argument('--props', default='')
    ap.add_argument('--all', action='store_true')
    ap.add_argument('--tier', default='quick')
    ap.add_argument('--seed', default='1')
    ap.add_argument('--skip-tests', action='store_true')
    ap.add_argument('--keep-as', default='')
    a = ap.parse_args()
    wt = tempfile.mkdtemp(prefix='seedwt-', dir='/tmp')
    os.rmdir(wt)
    out = {'patch': a.patch}
    try:
        rc, o, e = sh(['git', '-C', '/repo', 'worktree', 'add', '-q', '--detach', wt, 'HEAD'])
        assert rc == 0, e
        env = dict(os.environ, PYTHONPATH=wt, PYTHONDONTWRITEBYTECODE='1')
        if a.demo:
            rc, o, e = sh([PY, '-B', a.demo], cwd=wt, env=env)
            out['demo_clean_rc'] = rc
        rc, o, e = sh(['git', '-C', wt, 'apply', os.path.abspath(a.patch)])
        out['apply_rc'] = rc
        if rc != 0:
            out['apply_err'] = e[-400:]
            print(json.dumps(out))
            return 2
        if not a.skip_tests:
            rc, o, e = sh([PY, '-B', '-m', 'pytest', '-q', '-p', 'no:cacheprovider', '-x'], cwd=wt,
                          env=dict(os.environ, PYTHONDONTWRITEBYTECODE='1'))
            out['pytest_rc'] = rc
            out['pytest_tail'] = o.strip().splitlines()[-1] if o.strip() else e[-200:]
        if a.demo:
            rc, o, e = sh([PY, '-B', a.demo], cwd=wt, env=env)
            out['demo_patched_rc'] = rc
            out['demo_patched_out'] = (o + e).strip()[-300:]
        props = [p for p in a.props.split(',') if p]
        if a.all:
            props = [c['property_id'] for c in json.load(open(os.path.join(HERE, 'MANIFEST.json')))['checks']]
        out['checks'] = {}
        rdir = wt + '-replays'
        for p in props:
            rc, o, e = sh([PY, '-B', 'run_check.py', p, '--tier', a.tier], cwd=HERE,
                          env=dict(os.environ, VERIF_REPO_DIR=wt, VERIF_SEED=a.seed, VERIF_REPLAY_DIR=rdir, VERIF_KEEP_HISTORY='1'))
            if rc == 1 and a.keep_as:
                import glob
                os.makedirs(os.path.join(HERE, 'regress', p), exist_ok=True)
                for i, path in enumerate(sorted(glob.glob(os.path.join(rdir, f'{p}-*.json')), key=os.path.getsize)[:2]):
                    d = json.load(open(path))
                    if len(json.dumps(d['case'])) > 60000 or 'traceback' in d['case']:
                        continue
                    json.dump({'property': p, 'origin': f'killed seeded change {a.keep_as}',
                               'signature_when_found': d['signature'], 'case': d['case'],
                               'detail_when_found': d['detail']},
                              open(os.path.join(HERE, 'regress', p, f'seeded_{a.keep_as}_{i}.json'), 'w'), indent=1)
            sigs = [l.strip()[len('signature: '):] for l in o.splitlines() if l.strip().startswith('signature:')]
            out['checks'][p] = {'rc': rc, 'signatures': sigs[:6],
                                'tail': o.strip().splitlines()[-1] if o.strip() else e[-300:]}
        print(json.dumps(out, indent=1))
    finally:
        sh(['git', '-C', '/repo', 'worktree', 'remove', '--force', wt])
        shutil.rmtree(wt, ignore_errors=True)
        shutil.rmtree(wt + '-replays', ignore_errors=True)
        sh(['git', '-C', '/repo', 'worktree', 'prune'])
    return 0


if __name__ == '__main__':
    sys.exit(main())
