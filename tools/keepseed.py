#!/venv/bin/python
"""Keep a sub-agent's seeded change under /verif/seeded/<ID>-<variant>/ after confirming it:
patch applies to /repo HEAD, pinned suite passes with it, demo passes without / fails with,
and record which checks catch it (all quick checks are run against a scratch worktree).

    tools/keepseed.py C01 a [--owner-only]"""
import json
import os
import shutil
import subprocess
import sys

HERE = os.path.dirname(os.path.dirname(os.path.abspath(__file__)))
pid, var = sys.argv[1], sys.argv[2]
owner_only = '--owner-only' in sys.argv
round_ = os.environ.get('SEED_ROUND', '')          # '' = first round (/tmp/seed), '2' = /tmp/seed2, ...
src = f'/tmp/seed{round_}/{pid}'
dst = os.path.join(HERE, 'seeded', f'{pid}-{("r" + round_) if round_ else ""}{var}')
os.makedirs(dst, exist_ok=True)
shutil.copy(f'{src}/patch_{var}.diff', f'{dst}/patch.diff')
shutil.copy(f'{src}/demo_{var}.py', f'{dst}/demo.py')
notes = open(f'{src}/notes_{var}.txt').read() if os.path.exists(f'{src}/notes_{var}.txt') else ''
cmd = ['/venv/bin/python', os.path.join(HERE, 'tools', 'seedtest.py'), f'{dst}/patch.diff', '--demo', f'{dst}/demo.py']
cmd += ['--props', pid] if owner_only else ['--all']
cmd += ['--keep-as', os.path.basename(dst)]
r = subprocess.run(cmd, capture_output=True, text=True, env=dict(os.environ, VERIF_PROCS='6'))
try:
    res = json.loads(r.stdout)
except Exception:
    print(r.stdout[-2000:], r.stderr[-2000:])
    sys.exit(2)
caught = sorted(p for p, c in res.get('checks', {}).items() if c['rc'] == 1)
errors = sorted(p for p, c in res.get('checks', {}).items() if c['rc'] == 2)
confirmed = (res.get('apply_rc') == 0 and res.get('pytest_rc') == 0 and res.get('demo_clean_rc') == 0
             and res.get('demo_patched_rc') not in (0, None))
meta = {
    'property': pid, 'variant': (('r' + round_) if round_ else '') + var, 'origin': ('independent sub-agent given the property text, a scratch worktree and - adversarial round - a description '
               'of what the check suite already generates, asked for a change that slips past it') if round_ in ('4', '5', '8') else ('independent sub-agent given the full property record (statement, quantifier, anchors) and a scratch worktree, asked for three realistic changes at different anchored mechanisms' if round_ in ('6', '7', '9', '10', '11') else
              'independent sub-agent given only the property text and a scratch worktree'),
    'what_it_needs_to_manifest': notes.strip(),
    'confirmed': confirmed,
    'confirmation': {'patch_applies_to_repo_HEAD': res.get('apply_rc') == 0,
                     'pinned_suite_with_patch': res.get('pytest_tail'),
                     'demo_exit_without_patch': res.get('demo_clean_rc'),
                     'demo_exit_with_patch': res.get('demo_patched_rc'),
                     'ran': 'tools/seedtest.py (scratch worktree of /repo HEAD under /tmp, removed afterwards; quick tier, VERIF_SEED=1)'},
    'caught_by_owner_check': pid in caught,
    'caught_by': caught,
    'harness_errors': errors,
    'signatures': {p: c['signatures'][:3] for p, c in res.get('checks', {}).items() if c['rc'] == 1},
}
json.dump(meta, open(f'{dst}/meta.json', 'w'), indent=1)
print(pid, var, 'confirmed' if confirmed else 'NOT CONFIRMED', 'owner caught' if pid in caught else 'OWNER MISSED',
      'caught by', caught, 'errors', errors)
