#!/bin/bash
# quietness: every claimed check at several seeds on /repo, fresh processes. usage: tools/quiet.sh [tier] [seeds...]
cd "$(dirname "$0")/.."
tier=${1:-quick}; shift
seeds=${@:-1 2 3 4 5}
bad=0
for sd in $seeds; do
  for id in $(/venv/bin/python -c "import json;print(' '.join(c['property_id'] for c in json.load(open('MANIFEST.json'))['checks']))"); do
    out=$(VERIF_SEED=$sd /venv/bin/python -B run_check.py $id --tier $tier 2>&1); rc=$?
    if [ $rc -ne 0 ]; then bad=$((bad+1)); echo "seed=$sd $id rc=$rc"; echo "$out" | grep -E "VIOLATION|HARNESS|signature|Error" | head -8; fi
  done
  echo "seed $sd done"
done
echo "non-zero exits: $bad"
