#!/bin/bash
# run every claimed check's quick (or $1) tier against /repo; print one line each
cd "$(dirname "$0")/.."
tier=${1:-quick}
for id in $(/venv/bin/python -c "import json;print(' '.join(c['property_id'] for c in json.load(open('MANIFEST.json'))['checks']))"); do
  s=$(date +%s)
  out=$(/venv/bin/python -B run_check.py $id --tier $tier 2>&1); rc=$?
  echo "$id rc=$rc $(($(date +%s)-s))s $(echo "$out" | tail -1)"
  if [ $rc -ne 0 ]; then echo "$out" | grep -E "VIOLATION|HARNESS|signature|Error" | head -20; fi
done
