"""C17 - script and body list the story text and items faithfully and in order."""
from xml.etree import ElementTree as ET

from hypothesis import strategies as st

from vlib import env, drive, gen, history, build as B, access, xmlcmp
from vlib.access import call
from vlib.findings import Collector, h64
from vlib.step import Failure

from mosromgr.mostypes import RunningOrder

PROP = 'C17'
MOD = 'checks.c17'
SHRINK_FIELDS = ['ro_xml', 'msg_xml']
RULE = (
    "Cases: (a) Hypothesis stories with any interleaving of paragraphs (plain, empty, "
    "whitespace-only, '(...)', '<...>', half-bracketed, mixed brackets '(...>' / '<...)', padded, '()', ')(', '(a)(b)', Unicode, "
    "multi-line, random XML-legal text), items and other elements, 1-5 stories per running order; "
    "(b) Hypothesis single steps and histories (states reached by merges, notably roStorySend bodies "
    "whose storyItem children become items).  A quarter of the pristine documents carry comments / processing instructions in the middle of paragraph text (not part of the text).  Paragraphs with inline child elements are excluded by "
    "construction.  Oracle, from the direct children of each <story> in an independent parse of str(ro): body = every <p> (its "
    "text, '' when empty) and every <item> (the library's Item must wrap an element equal to it) in "
    "document order; script = stripped text of each <p> whose text is non-empty after stripping and "
    "not wrapped in () or <>; RunningOrder.script / body = concatenation over stories in running "
    "order; in histories, Story objects kept from the previous state and read again after the merge describe their (still present) element as it is now.  Non-trivial = >= 2 stories and at least one filtered paragraph kind (empty / whitespace / "
    "bracketed) present.")
ASSUMPTIONS = ['<p> elements have no child elements (stated exclusion)']
MANDATORY = ['filtered:empty', 'filtered:whitespace', 'filtered:round', 'filtered:angle',
             'kept:half-bracketed', 'kept:mixed-brackets', 'items-interleaved', 'post-merge:StorySend', 'pristine']


def check(ro, base='roCreate'):
    fails = []
    # the document as an independent parser reads it (not the library's own tree: a tree built with
    # other parser options - comments kept, say - would otherwise be its own oracle)
    rc = ET.fromstring(str(ro)).find(base)
    xs = [c for c in rc if c.tag == 'story']

    def mism(what, exp, got):
        if base != 'roCreate':
            what = 'roReplace-object|' + what
        fails.append(Failure(PROP, f'C17|{what}|unfaithful', f'{what}: library {got!r}, XML says {exp!r}', exp, got))
    ok, stories = call(ro, 'stories', fails, PROP, 'RunningOrder')
    if not ok or len(stories) != len(xs):
        return fails
    all_script, all_body = [], []
    for st_, x in zip(stories, xs):
        exp_s, exp_b = access.x_script(x), access.x_body(x)
        all_script += exp_s
        all_body += exp_b
        ok, v = call(st_, 'script', fails, PROP, 'Story')
        if ok and v != exp_s:
            mism('Story.script', exp_s, v)
        ok, v = call(st_, 'body', fails, PROP, 'Story')
        if ok and not _body_eq(v, exp_b):
            mism('Story.body', _show(exp_b), _showlib(v))
    ok, v = call(ro, 'script', fails, PROP, 'RunningOrder')
    if ok and v != all_script:
        mism('RunningOrder.script', all_script, v)
    ok, v = call(ro, 'body', fails, PROP, 'RunningOrder')
    if ok and not _body_eq(v, all_body):
        mism('RunningOrder.body', _show(all_body), _showlib(v))
    return fails


def _body_eq(lib, exp):
    if len(lib) != len(exp):
        return False
    for got, (kind, val) in zip(lib, exp):
        if kind == 'p':
            if not isinstance(got, str) or got != val:
                return False
        else:
            gx = getattr(got, 'xml', None)
            if isinstance(got, str) or gx is None or xmlcmp.canon(gx) != xmlcmp.canon(val):
                return False
    return True


def _show(exp):
    return [v if k == 'p' else f"<item {access._text(v, 'itemID')}>" for k, v in exp]


def _showlib(lib):
    return [g if isinstance(g, str) else f"<item {getattr(g, 'id', '?')}>" for g in lib]


def _classes(ro_xml):
    rc = ET.fromstring(ro_xml).find('roCreate')
    xs = [c for c in rc if c.tag == 'story']
    cl = set()
    for x in xs:
        seen_item = False
        for c in x:
            if c.tag == 'item':
                seen_item = True
            if c.tag != 'p':
                continue
            if seen_item:
                cl.add('items-interleaved')
            t = c.text
            if t is None or t == '':
                cl.add('filtered:empty')
            elif not t.strip():
                cl.add('filtered:whitespace')
            else:
                s = t.strip()
                if s.startswith('(') and s.endswith(')'):
                    cl.add('filtered:round')
                elif s.startswith('<') and s.endswith('>'):
                    cl.add('filtered:angle')
                elif s[0] in '(<' and s[-1] in ')>':
                    cl.add('kept:mixed-brackets')
                elif s[0] in '(<' or s[-1] in ')>':
                    cl.add('kept:half-bracketed')
    return sorted(cl), len(xs)


def check_message_stories(mo):
    """script / body of the stories a message carries (StorySend.story, StoryAppend.stories ...)."""
    from checks.c20 import ACCESS
    fails = []
    kind = type(mo).__name__
    acc = ACCESS.get(kind, {})
    names = [acc[r] for r in ('payload',) if r in acc] + (['story'] if kind == 'StorySend' else [])
    for name in names:
        ok, v = call(mo, name, fails, PROP, kind)
        if not ok or v is None:
            continue
        for obj in (list(v) if isinstance(v, (list, tuple)) else [v]):
            if type(obj).__name__ != 'Story':
                continue
            x = obj.xml
            ok1, sc = call(obj, 'script', fails, PROP, f'{kind}.{name}->Story')
            if ok1 and sc != access.x_script(x):
                fails.append(Failure(PROP, f'C17|{kind}.{name}|Story.script|unfaithful',
                                     f'{sc!r} vs {access.x_script(x)!r}', access.x_script(x), sc))
            ok2, bd = call(obj, 'body', fails, PROP, f'{kind}.{name}->Story')
            if ok2 and not _body_eq(bd, access.x_body(x)):
                fails.append(Failure(PROP, f'C17|{kind}.{name}|Story.body|unfaithful',
                                     f'{_showlib(bd)} vs {_show(access.x_body(x))}'))
    return fails


_KEPT = {'ro': None, 'stories': []}


def check_kept(ro, prop=PROP):
    """Story objects taken from ro.stories (and read) after the previous step of the same live
    running order: where the element they wrap is still in the running order, they must
    describe it as it is now."""
    fails = []
    kept, _KEPT['stories'] = (_KEPT['stories'] if _KEPT['ro'] is ro else []), []
    _KEPT['ro'] = ro
    rc = ro.xml.find('roCreate')
    live = {id(c): c for c in rc if c.tag == 'story'} if rc is not None else {}
    for st_ in kept:
        x = live.get(id(st_.xml))
        if x is None or x is not st_.xml:
            continue
        ok, v = call(st_, 'script', fails, PROP, 'kept Story')
        if ok and v != access.x_script(x):
            fails.append(Failure(PROP, 'C17|kept-Story.script|stale', f'a Story object kept across a merge: '
                                 f'script {v!r}, its element now says {access.x_script(x)!r}', access.x_script(x), v))
        ok, v = call(st_, 'body', fails, PROP, 'kept Story')
        if ok and not _body_eq(v, access.x_body(x)):
            fails.append(Failure(PROP, 'C17|kept-Story.body|stale', f'a Story object kept across a merge: body '
                                 f'{_showlib(v)}, its element now says {_show(access.x_body(x))}'))
        ok, v = call(st_, 'items', fails, prop, 'kept Story')
        want_ = [access._text(i, 'itemID') for i in x if i.tag == 'item']
        if ok and v is not None and [i.id for i in v] != want_:
            fails.append(Failure(prop, f'{prop}|kept-Story.items|stale', f'a Story object kept across a merge: items '
                                 f'{[i.id for i in v]}, its element now holds {want_}', want_, [i.id for i in v]))
    try:
        _KEPT['stories'] = list(ro.stories)
        for st_ in _KEPT['stories']:
            st_.script, st_.body, st_.items
    except Exception:
        _KEPT['stories'] = []
    return fails


def judge(ev):
    if ev.obs.ro is None:
        return []
    fails = check(ev.obs.ro)
    if 'history' in ev.case:
        fails += check_kept(ev.obs.ro)
    if ev.obs.msg is not None:
        fails += check_message_stories(ev.obs.msg)
        if type(ev.obs.msg).__name__ == 'RunningOrderReplace':
            # a RunningOrderReplace is a RunningOrder: its own script / body list its own stories
            fails += check(ev.obs.msg, base='roReplace')
    return fails


def record(col, ev):
    if ev.obs.ro is None:
        col.record(ev.case, False, ['unclassified'], [], key=0)
        return
    cl, n = _classes(ev.obs.after)
    filtered = any(c.startswith('filtered') for c in cl)
    changed = ev.obs.after != ev.obs.before
    extra = [f'post-merge:{ev.obs.cls_name}'] if changed else []
    col.record(ev.case, n >= 2 and filtered, cl + extra, judge(ev), key=drive.ev_key(ev))


def rejudge(case):
    if 'history' in case:
        return history.rejudge_history(case, MOD)
    if 'msg_xml' not in case:
        return check(RunningOrder.from_string(case['ro_xml']))
    return judge(drive.eval_step(case))


@st.composite
def para_ro(draw):
    stories = []
    for i in range(draw(st.integers(1, 5))):
        body = []
        nitem = 0
        for _ in range(draw(st.integers(0, 8))):
            kind = draw(st.sampled_from(['p', 'p', 'p', 'item', 'other', 'ptext']))
            if kind == 'p':
                body.append(B.P(draw(st.sampled_from(gen.PARAS))))
            elif kind == 'ptext':
                body.append(B.P(draw(gen.text)))
            elif kind == 'item':
                body.append(B.mk_item(f'I{nitem}', slug='x'))
                nitem += 1
            else:
                body.append(draw(gen.generic(depth=1)))
        stories.append(B.mk_story(f'S{i}', slug='s', timing=draw(gen.timing('any')), body=body))
    xml = B.tostring(B.envelope(B.ro_create('RO1', stories), 5), pretty=draw(st.booleans()))
    if draw(st.integers(0, 3)) == 0:
        # comments / processing instructions in the middle of paragraph text: not part of the text
        import re
        ins = draw(st.sampled_from(['<!-- c -->', '<!--(note)-->', '<?pi x?>', '<!-- a --><!-- b -->']))
        xml = re.sub(r'(<p>[^<]*?[^<\s])( )', lambda m_: m_.group(1) + ins + m_.group(2), xml,
                     count=draw(st.integers(1, 3)))
    return {'ro_xml': xml}


def shard_paras(args):
    n, seed = args
    col = Collector(PROP)

    def one(case):
        cl, ns = _classes(case['ro_xml'])
        col.record(case, ns >= 2 and any(c.startswith('filtered') for c in cl), cl + ['pristine'],
                   rejudge(case), key=h64(case['ro_xml']))
    drive.run_given(para_ro(), one, n, seed)
    return col


def run(tier, seed, procs):
    quick = tier == 'quick'
    shards, per = (8, 300) if quick else (16, 15000)
    cols = drive.pool_map(shard_paras, [(per, seed * 1000 + i) for i in range(shards)], procs)
    kinds = list(gen.STORY_KINDS) + ['roReplace', 'roStorySend', 'roStorySend'] + list(gen.ITEM_KINDS)
    kw = dict(kinds=kinds, faults='none', rich=True, min_stories=1)
    cols += drive.pool_map(drive.shard_hyp_steps,
                           [(MOD, per // 2, seed * 1000 + 100 + i, kw) for i in range(shards)], procs)
    hs, runs, steps = (8, 25, 20) if quick else (16, 600, 50)
    cols += drive.pool_map(history.shard_history,
                           [(MOD, runs, steps, seed * 1000 + 500 + i,
                             {'faults': 'none', 'degenerate': False, 'kinds': kinds}) for i in range(hs)], procs)
    return drive.merge_all(PROP, cols)
