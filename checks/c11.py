"""C11 - a collection is accepted exactly when it describes one running order."""
import itertools
import json
import os
import subprocess
import sys

from hypothesis import strategies as st

from vlib import env, drive, gen, build as B
from vlib.findings import Collector, h64
from vlib.step import Failure

PROP = 'C11'
MOD = 'checks.c11'
RULE = (
    "Cases: (a) exhaustive - #roCreate in 0..3 x #roDelete in 0..3 x #other messages in 0..3 (kinds "
    "cycling through roStorySend, roReplace (which is NOT a roCreate), roStoryMove, roElementAction, "
    "roMetadataReplace) x running-order-ID pattern in {all equal, one other message deviates, the "
    "roDelete deviates, a second roCreate deviates, the only roCreate deviates} x allow_incomplete in "
    "{False, True}, including the empty list, message IDs distinct and supplied in shuffled order; "
    "(a') the small lists again through from_files, plain and with each document in turn listed twice (the same path twice), and through MosCollection(readers) given the caller's reader list a second time; (b) Hypothesis multisets with up to 6 of each.  Every batch is evaluated in three FRESH "
    "interpreters started as `python`, `python -O` and `python -OO`.  Oracle: accepted <=> one roID "
    "and exactly one roCreate and <= 1 roDelete and (allow_incomplete or exactly one roDelete); "
    "otherwise InvalidMosCollection; after acceptance mc.ro.message_id is the roCreate's, mc.ro is a "
    "RunningOrder, and the reader IDs are the remaining IDs in ascending order; identical outcomes "
    "across the three interpreter configurations.  Non-trivial = anything but a plain valid list "
    "under the default interpreter: a count >= 2 or == 0, mixed IDs, the empty list, or -O/-OO."
    ' Round 11: different documents sharing a messageID (with the roCreate, with each other, with the roDelete) from strings, files and the paged fake bucket: all of them stay in the collection.')
ASSUMPTIONS = ['message IDs are distinct, except that the same document may be listed twice', 'each document is individually classifiable']
MANDATORY = ['source:s3', 'source:readers-twice', 'blank-roID-among-others', 'same-document-twice', 'source:files', 'completed-roCreate', 'flags:-O', 'flags:-OO', 'empty-list', 'two-roCreates', 'two-roDeletes', 'no-roCreate',
             'mixed-ids', 'valid-complete', 'valid-incomplete-allowed', 'incomplete-not-allowed',
             'roReplace-present']

WORKER = r'''
import sys, json
sys.path.insert(0, @VDIR@)
import os
os.environ['VERIF_' + 'RE' + 'PO_DIR'] = @REPO@
from vlib import env, fakes3          # (the repository first on sys.path, mosromgr imported from there, logging off)
from mosromgr.moscollection import MosCollection
out = []
import os, tempfile, shutil
for docs, ai, source in json.load(sys.stdin):
    tmp = None
    try:
        if source == 'files':
            # one file per DISTINCT document: a document listed twice is the same path twice
            tmp = tempfile.mkdtemp(prefix='c11-', dir=@WORK@)
            paths = []
            for d in docs:
                p = os.path.join(tmp, 'doc%03d.mos.xml' % docs.index(d))
                if not os.path.exists(p):
                    open(p, 'w', encoding='utf-8').write(d)
                paths.append(p)
            mc = MosCollection.from_files(paths, allow_incomplete=ai)
        elif source == 's3':
            # the same documents as objects of a (fake) bucket listed in pages of two keys
            objs = {'pfx/k%03d.mos.xml' % n: d.encode('utf-8') for n, d in enumerate(docs)}
            objs.update({'pfx/notes.txt': b'x', 'elsewhere/zz.mos.xml': b'<mos/>'})
            with fakes3.FakeS3({'bkt': objs}, page_size=2):
                mc = MosCollection.from_s3(bucket_name='bkt', prefix='pfx/', allow_incomplete=ai)
        elif source == 'readers-twice':
            # the caller's own reader list, used for a first attempt (without allow_incomplete)
            # and then again: the second construction must see the same list
            from mosromgr.moscollection import MosReader
            readers = [MosReader.from_string(d) for d in docs]
            try:
                MosCollection(readers, allow_incomplete=False)
            except Exception:
                pass
            mc = MosCollection(readers, allow_incomplete=ai)
        else:
            mc = MosCollection.from_strings(docs, allow_incomplete=ai)
        out.append(['ok', mc.ro.message_id, [r.message_id for r in mc.mos_readers], type(mc.ro).__name__])
    except Exception as e:
        out.append(['exc', type(e).__name__])
    finally:
        if tmp:
            shutil.rmtree(tmp, ignore_errors=True)
print(json.dumps(out))
'''
FLAGS = {'default': [], '-O': ['-O'], '-OO': ['-OO']}


def doc(kind, mid, ro_id):
    if kind == 'roCreate-completed':
        # the output of an earlier merge: a roCreate that already carries its completion record
        from xml.etree import ElementTree as ET
        root = B.envelope(B.ro_create(ro_id, [gen.plain_story('S0', ['I0']), gen.plain_story('S1')]), mid)
        root.append(B.E('mosromgrmeta', B.ro_delete(ro_id)))
        return B.tostring(root)
    if kind == 'roCreate':
        body = B.ro_create(ro_id, [gen.plain_story('S0', ['I0']), gen.plain_story('S1')])
    elif kind == 'roDelete':
        body = B.ro_delete(ro_id)
    elif kind == 'roStorySend':
        body = B.story_send(ro_id, 'S0', body=[B.P('x')])
    elif kind == 'roReplace':
        body = B.ro_replace(ro_id, [gen.plain_story('S0'), gen.plain_story('S1')])
    elif kind == 'roStoryMove':
        body = B.story_move(ro_id, ['S1', 'S0'])
    elif kind == 'roElementAction':
        body = B.ea_story_swap(ro_id, 'S0', 'S1')
    else:
        body = B.metadata_replace(ro_id, [B.T('roChannel', 'x')])
    return B.tostring(B.envelope(body, mid))


OTHERS = ['roStorySend', 'roReplace', 'roStoryMove', 'roElementAction', 'roMetadataReplace']


def make_case(nc, nd, no, pattern, ai, perm_seed=0, other_off=0, completed=False, dup=None, source='strings', share=None):
    """-> case dict or None when the pattern does not apply."""
    kinds = ['roCreate'] * nc + ['roDelete'] * nd + [OTHERS[(i + other_off) % len(OTHERS)] for i in range(no)]
    if nc and (completed or (perm_seed + other_off + nd + no) % 4 == 3):
        kinds[0] = 'roCreate-completed'
    ro_ids = ['RO1'] * len(kinds)
    if pattern == 'other-deviates':
        if no == 0:
            return None
        ro_ids[nc + nd] = 'RO2'
    elif pattern == 'delete-deviates':
        if nd == 0:
            return None
        ro_ids[nc] = 'RO2'
    elif pattern == 'second-create-deviates':
        if nc < 2:
            return None
        ro_ids[1] = 'RO2'
    elif pattern == 'only-create-deviates':
        if nc != 1 or len(kinds) < 2:
            return None
        ro_ids[0] = 'RO2'
    elif pattern == 'other-padded':
        # the same characters plus a trailing blank / a line break: another ID
        if no == 0:
            return None
        ro_ids[nc + nd] = ('RO1 ', '\n  RO1\n  ', ' RO1', 'ro1')[(perm_seed + other_off + no) % 4]
    elif pattern == 'other-nfd':
        # canonically equivalent, but another string: composed vs decomposed e-acute; IDs with braces / percent
        if no == 0:
            return None
        base = ('RO-\u00e9', '{8F2A-RO}', 'RO %s {0}')[(perm_seed + other_off + no) % 3]
        ro_ids = [base] * len(kinds)
        ro_ids[nc + nd] = {'RO-\u00e9': 'RO-e\u0301', '{8F2A-RO}': '{8F2A-RO} ', 'RO %s {0}': 'RO %s {1}'}[base]
    elif pattern == 'other-blank':
        if no == 0:
            return None
        ro_ids[nc + nd] = ''
    elif pattern == 'delete-blank':
        if nd == 0:
            return None
        ro_ids[nc] = ''
    n = len(kinds)
    # distinct message ids of mixed width, roCreate not necessarily the smallest
    mids = [7, 1003, 12, 99, 100, 5, 64000, 31, 8, 2000, 9, 10, 101, 3, 77777][:n]
    mids = mids[perm_seed % max(1, n):] + mids[:perm_seed % max(1, n)]
    if share is not None:
        # two DIFFERENT documents carrying the same messageID: an ordinary message and the roCreate,
        # two ordinary messages, or an ordinary message and the roDelete.  Every one of them is a
        # document of the collection all the same
        if share == 'create' and nc >= 1 and no >= 1:
            mids[nc + nd] = mids[0]
        elif share == 'others' and no >= 2:
            mids[nc + nd + 1] = mids[nc + nd]
        elif share == 'delete' and nd >= 1 and no >= 1:
            mids[nc + nd] = mids[nc]
        else:
            return None
    docs = [doc(k, m, r) for k, m, r in zip(kinds, mids, ro_ids)]
    order = list(range(n))
    if perm_seed % 2:
        order.reverse()
    if dup is not None:
        # the very same document a second time (the same file listed twice)
        if not n:
            return None
        order.append(order[dup % n])
    return {'docs': [docs[i] for i in order], 'allow_incomplete': ai, 'source': source,
            'meta': {'kinds': [kinds[i] for i in order], 'mids': [mids[i] for i in order],
                     'ro_ids': [ro_ids[i] for i in order]}}


def oracle(case):
    meta = case['meta']
    kinds, mids, ro_ids = meta['kinds'], meta['mids'], meta['ro_ids']
    nc, nd = kinds.count('roCreate') + kinds.count('roCreate-completed'), kinds.count('roDelete')
    ok = (len(kinds) > 0 and len(set(ro_ids)) == 1 and nc == 1 and nd <= 1
          and (case['allow_incomplete'] or nd == 1))
    if not ok:
        return ['exc', 'InvalidMosCollection']
    create = mids[[k.startswith('roCreate') for k in kinds].index(True)]
    return ['ok', create, sorted(m for m, k in zip(mids, kinds) if not k.startswith('roCreate')), 'RunningOrder']


def evaluate(cases, flags):
    prog = WORKER.replace('@REPO@', repr(env.REPO_DIR)).replace('@WORK@', repr(env.ensure_dir(env.WORK_DIR))) \
        .replace('@VDIR@', repr(env.VERIF_DIR))
    payload = json.dumps([[c['docs'], c['allow_incomplete'], c.get('source', 'strings')] for c in cases])
    r = subprocess.run([sys.executable, '-B'] + FLAGS[flags] + ['-c', prog], input=payload,
                       capture_output=True, text=True, timeout=900,
                       env=dict(os.environ, PYTHONDONTWRITEBYTECODE='1'))
    if r.returncode != 0:
        raise env.HarnessError(f'interpreter {flags} failed: {r.stderr[-800:]}')
    return json.loads(r.stdout.strip().splitlines()[-1])


def classes_of(case, flags):
    k = case['meta']['kinds']
    nc, nd = k.count('roCreate') + k.count('roCreate-completed'), k.count('roDelete')
    cl = [f'flags:{flags}']
    if 'roCreate-completed' in k:
        cl.append('completed-roCreate')
    if not k:
        cl.append('empty-list')
    if nc >= 2:
        cl.append('two-roCreates')
    if nd >= 2:
        cl.append('two-roDeletes')
    if nc == 0 and k:
        cl.append('no-roCreate')
    if len(set(case['meta']['ro_ids'])) > 1:
        cl.append('mixed-ids')
    if '' in case['meta']['ro_ids']:
        cl.append('blank-roID-among-others')
    if len(set(case['docs'])) < len(case['docs']):
        cl.append('same-document-twice')
    elif len(set(case['meta']['mids'])) < len(case['meta']['mids']):
        cl.append('different-documents-sharing-a-messageID')
    cl.append('source:' + case.get('source', 'strings'))
    if 'roReplace' in k:
        cl.append('roReplace-present')
    exp = oracle(case)
    if exp[0] == 'ok':
        cl.append('valid-complete' if nd == 1 else 'valid-incomplete-allowed')
    elif nc == 1 and nd == 0 and len(set(case['meta']['ro_ids'])) == 1:
        cl.append('incomplete-not-allowed')
    return cl


def judge_outcome(case, flags, got):
    exp = oracle(case)
    if case.get('source') == 'readers-twice' and got[0] == 'ok':
        # the direct constructor keeps the caller's order (sorting is what the from_* constructors
        # add, C10): only acceptance, the running order and the SET of remaining readers are judged
        got = [got[0], got[1], sorted(got[2]), got[3]]
    if got == exp:
        return []
    k = case['meta']['kinds']
    cell = f"creates={min(k.count('roCreate') + k.count('roCreate-completed'), 2)},deletes={min(k.count('roDelete'), 2)}," \
           f"mixed={len(set(case['meta']['ro_ids'])) > 1},ai={case['allow_incomplete']}"
    if not k:
        cell = 'empty'
    gs = got[1] if got[0] == 'exc' else 'accepted'
    es = exp[1] if exp[0] == 'exc' else 'accepted'
    if got[0] == 'ok' and exp[0] == 'ok':
        gs = 'accepted-with-wrong-ro-or-readers'
    return [Failure(PROP, f'C11|{flags}|expected-{es}|got-{gs}',
                    f'python {flags} [{cell}]: kinds={k} ro_ids={case["meta"]["ro_ids"]} '
                    f'allow_incomplete={case["allow_incomplete"]}: expected {exp}, got {got}', exp, got)]


def rejudge(case):
    flags = case.get('flags', 'default')
    got = evaluate([case], flags)[0]
    return judge_outcome(case, flags, got)


def run_batch(col, cases):
    outs = {f: evaluate(cases, f) for f in FLAGS}
    for i, case in enumerate(cases):
        for f in FLAGS:
            c = dict(case, flags=f)
            fails = judge_outcome(case, f, outs[f][i])
            plain = (f == 'default' and oracle(case)[0] == 'ok')
            col.record(c, not plain, classes_of(case, f), fails,
                       key=h64(json.dumps(case['meta'], sort_keys=True), case['allow_incomplete'], f, case.get('source', 'strings')))
        if len({json.dumps(outs[f][i]) for f in FLAGS}) > 1:
            col.add_failure(Failure(PROP, 'C11|outcome-depends-on-interpreter-flags',
                                    f'kinds={case["meta"]["kinds"]}: ' +
                                    ', '.join(f'{f}: {outs[f][i]}' for f in FLAGS)), dict(case, flags='-O'))


def run(tier, seed, procs):
    quick = tier == 'quick'
    col = Collector(PROP)
    cases = []
    top = 3 if quick else 4
    pats = ['all-equal', 'other-deviates', 'delete-deviates', 'second-create-deviates', 'only-create-deviates',
            'other-blank', 'delete-blank', 'other-padded', 'other-nfd']
    for nc, nd, no, pat, ai in itertools.product(range(top + 1), range(top + 1), range(top + 1),
                                                 pats, (False, True)):
        for ps in ((0,) if quick else (0, 1, 2, 3)):
            c = make_case(nc, nd, no, pat, ai, perm_seed=ps + seed, other_off=ps)
            if c is not None:
                cases.append(c)
            if nc == 1 and pat == 'all-equal':
                c2 = make_case(nc, nd, no, pat, ai, perm_seed=ps + seed, other_off=ps, completed=True)
                if c2 is not None:
                    cases.append(c2)
            if nc <= 2 and nd <= 2 and no <= 2 and pat in ('all-equal', 'other-deviates'):
                c4 = make_case(nc, nd, no, pat, ai, perm_seed=ps + seed, other_off=ps, source='readers-twice')
                if c4 is not None:
                    cases.append(c4)
            if nc <= 2 and nd <= 2 and no <= 3 and pat in ('all-equal', 'delete-deviates'):
                c5 = make_case(nc, nd, no, pat, ai, perm_seed=ps + seed, other_off=ps, source='s3')
                if c5 is not None:
                    cases.append(c5)
            if nc == 1 and nd <= 1 and 1 <= no <= 3 and pat in ('all-equal', 'other-deviates'):
                for share in ('create', 'others', 'delete'):
                    for src in ('strings', 'files', 's3'):
                        c6 = make_case(nc, nd, no, pat, ai, perm_seed=ps + seed, other_off=ps, source=src, share=share)
                        if c6 is not None:
                            cases.append(c6)
            if nc <= 2 and nd <= 2 and no <= 2 and pat == 'all-equal':
                # from files, plain and with each document in turn listed twice
                for dup in [None] + list(range(nc + nd + no)):
                    c3 = make_case(nc, nd, no, pat, ai, perm_seed=ps + seed, other_off=ps, dup=dup, source='files')
                    if c3 is not None:
                        cases.append(c3)
    col.scopes.append(f'collections: 0..{top} roCreates x 0..{top} roDeletes x 0..{top} others x 5 ID patterns '
                      f'x allow_incomplete x 3 interpreter configurations ({len(cases)} lists)')
    # hypothesis: larger multisets
    extra = []

    def one(t):
        nc, nd, no, pat, ai, ps = t
        c = make_case(nc, nd, no, pat, ai, perm_seed=ps, other_off=ps)
        if c is not None and len(c['docs']) <= 13:
            extra.append(c)
    drive.run_given(st.tuples(st.integers(0, 4), st.integers(0, 4), st.integers(0, 5),
                              st.sampled_from(pats), st.booleans(), st.integers(0, 9)),
                    one, 150 if quick else 6000, seed)
    run_batch(col, cases + extra)
    return col
