"""C12 - well-formed input fails only with the library's own exceptions."""
from vlib import drive, gen, step, history, build

PROP = 'C12'
MOD = 'checks.c12'
SHRINK_FIELDS = ['ro_xml', 'msg_xml', 'doc']
RULE = (
    "Cases: the exhaustive story/item scopes (blank, unknown, missing, repeated and self-referential "
    "IDs at every slot), the roElementAction shape enumeration of C08 (classification of well-formed "
    "documents; a sample of them also as files and bytes in declared ISO-8859-1 / UTF-16 encodings, and declaring encodings the parser cannot decode - Shift_JIS, UTF-32, UCS-2, ...), Hypothesis single steps and histories with fault-heavy references over running "
    "orders whose stories carry any subset of the timing metadata (including none, and metadata "
    "without a payload), and non-strict collection merges (one in six over documents whose roID is blank throughout).  Oracle: an exception leaving "
    "MosFile.from_string on a well-formed document must be a MosRoMgrException; an exception "
    "leaving `ro += msg` must be a MosMergeError; MosCollection.merge(strict=False) must return.  "
    "Failures are bucketed by (exception type, innermost mosromgr frame).  Non-trivial = some "
    "reference is blank/unknown/repeated/self-referential, or the running order holds a story "
    "without a duration, or the message is an unlisted roElementAction shape."
    ' Also: a roDelete inside a third of the collections, running orders without roSlug, collections whose roID is blank throughout, stories at child index > 256, encoded documents through from_s3, present-but-empty timing tags, anonymous / twin-ID layouts.'
    " Round 11: C08's enumerated and generated documents judged for the kind of exception; message tags nested below non-message elements with no message element beside them.")
ASSUMPTIONS = [
    'messages are schema-shaped: required tags present (roItemMoveMultiple >= 1 itemID, SWAP exactly two IDs, '
    'roStorySend has a storyBody, every story has a storyID and every item an itemID)',
]
MANDATORY = ['ref-fault', 'untimed-story-present', 'degenerate', 'classification:ea-shape',
             'classification:encoded-file', 'classification:encoded-bytes', 'classification:undecodable-declared-encoding',
             'collection:non-strict']


def judge(ev):
    return step.judge_contained(ev.obs, ev.msg)


def record(col, ev):
    m, ex = ev.msg, ev.ex
    classes = [f'{m.kind}'] if m.kind else ['unclassified']
    fault = (not ex.resolves) or ex.degenerate
    if fault:
        classes.append('ref-fault')
    if ex.degenerate:
        classes.append('degenerate')
    untimed = False
    if ev.obs.before and '<story>' in ev.obs.before or (ev.obs.before and '<story ' in ev.obs.before):
        from xml.etree import ElementTree as ET
        from mosromgr.moselements import _get_story_duration  # noqa  (not used for judging)
        for s in ET.fromstring(ev.obs.before).iter('story'):
            md = s.find('mosExternalMetadata')
            pl = md.find('mosPayload') if md is not None else None
            if pl is None or (pl.find('StoryDuration') is None and pl.find('TextTime') is None
                              and pl.find('MediaTime') is None):
                untimed = True
                break
    if untimed:
        classes.append('untimed-story-present')
    if ev.obs.exc is not None:
        classes.append(f'raised:{ev.obs.exc_type}')
    col.record(ev.case, fault or untimed, classes, judge(ev), key=drive.ev_key(ev))


def judge_doc(case):
    """Classification of one well-formed document (from text, or from a file / bytes in the
    encoding the document declares)."""
    from vlib.step import Failure, classify_exc
    from mosromgr.mostypes import MosFile
    import warnings
    if (case.get('source') or '').startswith('s3:'):
        from checks.c08 import encoded
        from vlib import fakes3
        from vlib.step import Failure as F_, classify_exc as ce_
        raw = encoded(case['doc'], case['source'].split(':')[1])
        try:
            with fakes3.FakeS3({'bkt': {'k/doc.mos.xml': raw}}):
                MosFile.from_s3('bkt', 'k/doc.mos.xml')
        except Exception as e:
            name, _m, is_mos, site = ce_(e)
            if not is_mos:
                return [F_(PROP, f'C12|classify-s3|{name}|{site}', f'from_s3 of a well-formed document ({case["source"]}) '
                           f'raised {name} at {site}: {e}', 'MosRoMgrException', name)]
        return []
    if case.get('source'):
        from checks import c08
        name, site = c08.classify(case['doc'], case['source'], 'ignore')
        from mosromgr import exc as X, mostypes as MT
        ok = hasattr(MT, name) or (hasattr(X, name) and issubclass(getattr(X, name), X.MosRoMgrException))
        return [] if ok else [Failure(PROP, f'C12|classify-{case["source"].split(":")[0]}|{name}|{site}',
                                      f'classification of a well-formed document ({case["source"]}) raised '
                                      f'{name} at {site}', 'MosRoMgrException', name)]
    with warnings.catch_warnings():
        warnings.simplefilter('ignore')
        try:
            MosFile.from_string(case['doc'])
        except Exception as e:
            name, _m, is_mos, site = classify_exc(e)
            if not is_mos:
                return [Failure(PROP, f'C12|classify|{name}|{site}',
                                f'classification of a well-formed document raised {name} at {site}: {e}',
                                'MosRoMgrException', name)]
    return []


# encodings a document may legitimately declare but the XML parser underneath cannot decode
UNDECODABLE = ['Shift_JIS', 'Big5', 'UTF-32', 'UCS-2', 'EUC-JP', 'GB2312', 'ANSI', 'utf-16-le', 'x-user-defined',
               'latin-9', 'utf-7', 'punycode', 'undefined']


def judge_declared(case):
    """A well-formed document (pure ASCII bytes) that declares an encoding the parser cannot handle:
    whatever happens, only a MosRoMgrException may leave the library."""
    import os
    import warnings
    from vlib.step import Failure, classify_exc
    from vlib import env
    from mosromgr.mostypes import MosFile
    from mosromgr.moscollection import MosReader
    raw = (f'<?xml version="1.0" encoding="{case["declared"]}"?>' + case['doc']).encode('ascii', 'xmlcharrefreplace')
    d = os.path.join(env.WORK_DIR, f'c12-{os.getpid()}')
    os.makedirs(d, exist_ok=True)
    path = os.path.join(d, 'declared.mos.xml')
    with open(path, 'wb') as f:
        f.write(raw)
    fails = []
    with warnings.catch_warnings():
        warnings.simplefilter('ignore')
        for name, fn in (('bytes', lambda: MosFile.from_string(raw)), ('file', lambda: MosFile.from_file(path)),
                         ('reader-file', lambda: MosReader.from_file(path))):
            try:
                fn()
            except Exception as e:
                ename, _m, is_mos, site = classify_exc(e)
                if not is_mos:
                    fails.append(Failure(PROP, f'C12|classify-declared-encoding|{ename}|{site}',
                                         f'{name}: a document declaring encoding="{case["declared"]}" made '
                                         f'{ename} escape at {site}: {e}', 'MosRoMgrException', ename))
    return fails


def judge_collection(case):
    from vlib.step import Failure, classify_exc
    from mosromgr.moscollection import MosCollection
    import warnings
    with warnings.catch_warnings():
        warnings.simplefilter('ignore')
        try:
            mc = MosCollection.from_strings(case['docs'], allow_incomplete=True)
        except Exception as e:
            name, _m, is_mos, site = classify_exc(e)
            return [] if is_mos else [Failure(PROP, f'C12|collection-init|{name}|{site}',
                                               f'MosCollection.from_strings raised {name} at {site}')]
        try:
            mc.merge(strict=False)
        except Exception as e:
            name, _m, _is_mos, site = classify_exc(e)
            return [Failure(PROP, f'C12|collection-nonstrict|{name}|{site}',
                            f'non-strict collection merge did not run to the end: {name} at {site}: {e}',
                            'merge returns', name)]
    return []


def rejudge(case):
    if 'declared' in case:
        return judge_declared(case)
    if 'doc' in case:
        return judge_doc(case)
    if 'docs' in case:
        return judge_collection(case)
    if 'history' in case:
        return history.rejudge_history(case, MOD)
    return judge(drive.eval_step(case))


def shard_ea_shapes(args):
    from checks import c08
    from vlib.findings import Collector
    col = Collector(PROP)
    for label, doc, _exp in c08.enum_ea_shapes():
        case = {'doc': doc}
        col.record(case, True, ['classification:ea-shape'], judge_doc(case))
    # the same documents as files / bytes in declared encodings (every 7th shape)
    for n, (label, doc, _exp) in enumerate(c08.enum_ea_shapes()):
        if n % 7:
            continue
        doc = doc.replace('</roID>', ' \u00e9</roID>', 1)
        for source in ('file', 'file:latin1', 'file:utf16', 'file:utf16be', 'bytes:latin1', 'bytes:utf16',
                       'bytes:utf8bom', 's3:latin1', 's3:utf16'):
            case = {'doc': doc, 'source': source}
            col.record(case, True, ['classification:encoded-' + source.split(':')[0]], judge_doc(case))
    # ... and declaring an encoding that the parser underneath cannot decode
    for n, (label, doc, _exp) in enumerate(c08.enum_ea_shapes()):
        if n % 97 == 0:
            for decl in UNDECODABLE:
                case = {'doc': doc, 'declared': decl}
                col.record(case, True, ['classification:undecodable-declared-encoding'], judge_declared(case))
    col.scopes.append('classification: every roElementAction (operation, target shape, source shape) combination')
    return col


def shard_documents(args):
    """Every document C08 classifies - each message tag in every envelope order, message tags nested
    below non-message elements and inside payloads (with and without a real message element beside
    them), no message element at all, foreign roots - judged here for the kind of exception only."""
    from checks import c08
    from vlib.findings import Collector
    n, seed = args
    col = Collector(PROP)
    if seed % 1000 == 700:
        for cl, doc in c08.enum_plain_docs():
            case = {'doc': doc}
            col.record(case, True, ['classification:enumerated-envelope'] +
                       (['classification:nested-message-tag'] if 'nested-decoy' in cl else []), judge_doc(case))
        # a message tag that is NOT a child of the root and has no message element beside it
        for tag in c08.TAG_ORDER:
            for wrap in ('mosObj', 'roAck', 'mosExternalMetadata'):
                inner = c08._payload_for(tag)
                if wrap == 'mosExternalMetadata':
                    inner = c08.E('mosPayload', inner)
                for extra in ((), (c08.T('roID', 'RO1'),)):
                    root = c08.E('mos', c08.T('mosID', 'M'), c08.T('messageID', '7'), c08.E(wrap, *extra, inner))
                    case = {'doc': build.tostring(root)}
                    col.record(case, True, ['classification:nested-message-tag', 'classification:nested-only'], judge_doc(case))

    def one(d):
        case = {'doc': d['doc']}
        col.record(case, True, ['classification:generated-document'] +
                   (['classification:nested-message-tag'] if 'nested-decoy' in d['classes'] else []), judge_doc(case))
    drive.run_given(c08.document(), one, n, seed)
    col.scopes.append('classification of generated / enumerated well-formed documents (C08 strategies), message tags nested below '
                      'non-message elements with no message element beside them')
    return col


def shard_collections(args):
    from hypothesis import strategies as st
    from xml.etree import ElementTree as ET
    from vlib import xmlcmp
    from vlib.findings import Collector
    n, seed = args
    col = Collector(PROP)

    @st.composite
    def coll(draw):
        ro = draw(gen.running_order(min_stories=1, max_stories=4, rich=True, allow_no_slug=True))
        state = xmlcmp.state_of(ET.fromstring(ro['ro_xml']))
        docs = [ro['ro_xml']]
        mid = ro['mid']
        for _ in range(draw(st.integers(2, 7))):
            mid += draw(st.integers(1, 50))
            _k, x = draw(gen.message(state, ro['ro_id'], kinds=[k for k in build.ALL_KINDS if k != 'roDelete'],
                                     faults='heavy', rich=True, mid=mid, degenerate=True))
            docs.append(x)
        if draw(st.integers(0, 2)) == 0:
            # a roDelete in the middle (or first): everything after it is refused - and the
            # non-strict merge still runs to the end
            k = draw(st.integers(1, len(docs) - 1))
            lo = int(ET.fromstring(docs[k - 1]).findtext('messageID')) if k > 1 else ro['mid']
            hi = int(ET.fromstring(docs[k]).findtext('messageID'))
            if hi - lo >= 2:
                docs.insert(k, build.tostring(build.envelope(build.ro_delete(ro['ro_id']), lo + 1)))
        if draw(st.integers(0, 5)) == 0:
            # one running order whose ID is blank everywhere
            out = []
            for d in docs:
                r = ET.fromstring(d)
                for rid in r.iter('roID'):
                    rid.text = None
                    break
                out.append(ET.tostring(r, encoding='unicode'))
            docs = out
        return {'docs': docs}

    def one(case):
        col.record(case, True, ['collection:non-strict'], judge_collection(case))
    drive.run_given(coll(), one, n, seed)
    return col


def run(tier, seed, procs):
    quick = tier == 'quick'
    N, M, K = (3, 3, 2) if quick else (5, 5, 3)
    cols = drive.pool_map(shard_ea_shapes, [None], 1)
    cols += drive.pool_map(drive.shard_enum_story,
                           [(MOD, n, lay, K) for n in range(0, N + 1) for lay in ('none', 'mixed', 'anon', 'twins')], procs)
    cols += drive.pool_map(drive.shard_enum_story_big, [(MOD, 3, 270, 2)], 1)
    refs = ['TGT', '', None, 'ZZ-unknown-story']
    cols += drive.pool_map(drive.shard_enum_item,
                           [(MOD, m, pl, K, pos, refs) for m in range(0, M + 1) for pos in (0, 1) for pl in ('mixed', 'anon-item', 'twin-items')], procs)
    kw = dict(allow_no_slug=True, kinds=list(build.ALL_KINDS), faults='heavy', rich=True, degenerate=True)
    shards, per = (8, 500) if quick else (16, 20000)
    cols += drive.pool_map(drive.shard_hyp_steps,
                           [(MOD, per, seed * 1000 + i, kw) for i in range(shards)], procs)
    hs, runs, steps = (4, 25, 20) if quick else (16, 800, 50)
    cols += drive.pool_map(history.shard_history,
                           [(MOD, runs, steps, seed * 1000 + 500 + i, {'faults': 'heavy'})
                            for i in range(hs)], procs)
    ds, dn = (4, 300) if quick else (16, 20000)
    cols += drive.pool_map(shard_documents, [(dn, seed * 1000 + 700 + i) for i in range(ds)], procs)
    cs, cn = (4, 50) if quick else (16, 2500)
    cols += drive.pool_map(shard_collections, [(cn, seed * 1000 + 800 + i) for i in range(cs)], procs)
    cols += drive.pool_map(drive.shard_enum_stale, [(MOD, 'story', i, 2 if quick else 3) for i in range(11)], procs)
    cols += drive.pool_map(drive.shard_enum_stale, [(MOD, 'item', i, 2 if quick else 3) for i in range(9)], procs)
    if not quick:
        # coverage-guided campaign (atheris/libFuzzer over the same strategies)
        from vlib import fuzz
        if fuzz.available():
            cols += drive.pool_map(fuzz.campaign, [('c12', PROP, 15000, seed, i) for i in range(procs)], procs)
        else:
            cols[0].notes.append('atheris not importable: coverage-guided campaign skipped (Hypothesis only)')
    return drive.merge_all(PROP, cols)
