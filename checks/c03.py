"""C03 - a merge changes only what the message names (no collateral edits)."""
from vlib import drive, gen, step, history, build

PROP = 'C03'
MOD = 'checks.c03'
SHRINK_FIELDS = ['ro_xml', 'msg_xml']
RULE = (
    "Cases: the exhaustive story-level and item-level scopes of C01/C02 (every kind x every "
    "reference among existing / unknown / blank, item scopes additionally with the story reference "
    "blank, missing and unknown) plus Hypothesis single steps and histories over *rich* running "
    "orders (nested metadata, attributes, mixed text and tails, several mosExternalMetadata blocks "
    "with distinct mosSchema, item IDs repeated across stories) x all 24 merging message kinds with "
    "fault-heavy references.  Oracle: frame equality - the children of roCreate (and of the addressed "
    "story) that the message does not name, read from the message text, must be canon-equal "
    "(tag, attributes, text, children, tails) and in the same order before and after; moved/swapped "
    "elements must themselves be unchanged; the envelope is unchanged; roMetadataReplace may touch "
    "only tags it carries and mosExternalMetadata blocks whose mosSchema it carries.  Non-trivial = "
    ">= 2 stories and (some reference is blank/unknown/missing, or another story holds an item with "
    "a named ID, or the message is a metadata replace over >= 2 metadata children)."
    ' Also: non-blank text tails after items / stories / paragraphs, lead text in stories and in roReplace / roCreate, second metadata blocks, schema-less blocks, anonymous and twin-ID elements, foreign-namespace decoys; an unchanged body is trivially framed (early exit).'
    ' Round 11: replacements that also carry a story whose ID another story has (frame = what the message does not name); returning-element histories; a running order that loses its roCreate is reported.')
ASSUMPTIONS = [
    'named elements are computed from the message text by the harness (never through library accessors)',
    'running-order metadata tags other than mosExternalMetadata are unique within roCreate; '
    'mosExternalMetadata blocks have distinct mosSchema values',
]
MANDATORY = ['ref:blank', 'ref:unknown', 'ref:missing', 'same-id-item-in-other-story',
             'MetaDataReplace:other-schema-present', 'StoryDelete:ref:blank', 'ItemDelete:ref:blank',
             'StoryReplace:ref:blank', 'EAStoryDelete:ref:blank', 'ItemReplace:ref:blank']


def judge(ev):
    return step.judge_frame(ev.obs, ev.ex, ev.msg)


def record(col, ev):
    m, ex = ev.msg, ev.ex
    if m.kind is None or m.level in ('none', 'ro'):
        col.record(ev.case, False, ['unclassified'], [], key=0)
        return
    fails = judge(ev)
    shapes = set()
    for r in [m.story_ref, m.target] + list(m.sources):
        if r is None:
            continue
        if r[0] != 'id':
            shapes.add(r[0])
    sids = [s for s, _ in ev.state]
    if m.level == 'story':
        ids = [v for (t, v) in [m.story_ref or ('x', None), m.target or ('x', None)] + list(m.sources)
               if t == 'id']
        if any(i not in sids for i in ids):
            shapes.add('unknown')
    elif m.level == 'item':
        if m.story_ref[0] == 'id' and m.story_ref[1] not in sids:
            shapes.add('unknown')
        elif ex.addressed:
            its = dict(ev.state)[ex.addressed]
            ids = [v for (t, v) in [m.target or ('x', None)] + list(m.sources) if t == 'id']
            if any(i not in its for i in ids):
                shapes.add('unknown')
    classes = [f'{m.kind}:{c}' for c in (ex.classes[:2] or ['plain'])]
    for sh in shapes:
        classes += [f'ref:{sh}', f'{m.kind}:ref:{sh}']
    same_id = False
    if m.level == 'item' and ex.addressed:
        named = set(m.source_ids()) | ({m.target[1]} if m.target and m.target[0] == 'id' else set())
        same_id = any(s != ex.addressed and named & set(its) for s, its in ev.state)
        if same_id:
            classes.append('same-id-item-in-other-story')
    md = False
    if m.kind == 'MetaDataReplace':
        import xml.etree.ElementTree as ET
        rc = ET.fromstring(ev.obs.before).find('roCreate')
        carried = {(c.find('mosSchema').text if c.find('mosSchema') is not None else None)
                   for c in m.base if c.tag == 'mosExternalMetadata'}
        have = [(c.find('mosSchema').text if c.find('mosSchema') is not None else None)
                for c in rc if c.tag == 'mosExternalMetadata']
        if carried and any(h not in carried for h in have):
            classes.append('MetaDataReplace:other-schema-present')
        md = len([c for c in rc if c.tag != 'story']) >= 4
    nontrivial = (len(sids) >= 2 and (bool(shapes) or same_id)) or md
    col.record(ev.case, nontrivial, classes, fails, key=drive.ev_key(ev))


def rejudge(case):
    if 'history' in case:
        return history.rejudge_history(case, MOD)
    return judge(drive.eval_step(case))


def run(tier, seed, procs):
    quick = tier == 'quick'
    N, M, K = (3, 3, 2) if quick else (5, 5, 3)
    tasks = [(MOD, n, lay, K) for n in range(0, N + 1) for lay in gen.LAYOUTS]
    cols = drive.pool_map(drive.shard_enum_story, tasks, procs)
    refs = ['TGT', '', None, 'ZZ-unknown-story']
    tasks = [(MOD, m, pl, K, pos, refs) for m in range(0, M + 1)
             for pl in ('none', 'mixed') for pos in (0, 1)]
    cols += drive.pool_map(drive.shard_enum_item, tasks, procs)
    kw = dict(allow_no_slug=True, kinds=[k for k in build.ALL_KINDS], faults='heavy', rich=True, degenerate=True,
              min_stories=1)
    shards, per = (8, 500) if quick else (16, 15000)
    cols += drive.pool_map(drive.shard_hyp_steps,
                           [(MOD, per, seed * 1000 + i, kw) for i in range(shards)], procs)
    kw2 = dict(kw, faults='some')
    cols += drive.pool_map(drive.shard_hyp_steps,
                           [(MOD, per // 2, seed * 1000 + 100 + i, kw2) for i in range(shards)], procs)
    hs, runs, steps = (8, 25, 20) if quick else (16, 600, 50)
    cols += drive.pool_map(history.shard_history,
                           [(MOD, runs, steps, seed * 1000 + 500 + i, {'faults': 'heavy'})
                            for i in range(hs)], procs)
    cols += drive.pool_map(drive.shard_enum_stale, [(MOD, 'story', i, 2 if quick else 3) for i in range(11)], procs)
    cols += drive.pool_map(drive.shard_enum_stale, [(MOD, 'item', i, 2 if quick else 3) for i in range(9)], procs)
    cols += drive.pool_map(history.shard_returning, [MOD], 1)
    return drive.merge_all(PROP, cols)
