"""C08 - classification is total, and decided only by the message element."""
import itertools
import os
import shutil
import subprocess
import sys
import warnings
from xml.etree import ElementTree as ET

from hypothesis import strategies as st

from vlib import env, drive, gen, build as B
from vlib.build import E, T
from vlib.findings import Collector, h64
from vlib.step import Failure, classify_exc

from mosromgr.mostypes import MosFile

PROP = 'C08'
MOD = 'checks.c08'
SHRINK_FIELDS = ['doc']
RULE = (
    "Cases: (a) exhaustive - each of the 15 plain message tags + roElementAction in every order of "
    "the envelope children, with decoy message tags nested deeper; every roElementAction shape: "
    "operation in {REPLACE, DELETE, INSERT, SWAP, MOVE, unknown word, lower-case, attribute missing} x "
    "target in {absent, empty, storyID, storyID+itemID, itemID only, blank IDs} x source in {absent, "
    "empty, storyIDs, itemIDs, stories, items (nested itemID only), storyID+itemID mixture}; (b) "
    "Hypothesis documents: an envelope with 0-1 recognised top-level message element among "
    "arbitrary other children, arbitrary payloads, nested decoys, non-MOS XML, and text damaged by "
    "truncation / character deletion / insertion.  Every document is classified from str, UTF-8 bytes and a "
    "file, and additionally from bytes and a file in a declared ISO-8859-1 and UTF-16 encoding, under warning filter 'default' and 'error' (in-process; thorough additionally samples "
    "real `python -W error` subprocesses).  Oracle: independent table tag -> class, (operation, "
    "target has direct itemID, source has direct itemID) -> class, else UnknownMosFileType; "
    "ElementTree ParseError -> MosInvalidXML; metamorphic: permuting root children, pretty-printing "
    "and nested decoys never change the outcome.  Non-trivial = not a canonical suite-style file: "
    "reordered/extra siblings, an EA shape, filter=error, bytes/file source, or damaged text."
    " Also: str beginning with U+FEFF or carrying a foreign encoding declaration; envelopes without messageID / mosID / ncsID; relative file names ('~$doc.mos.xml'); DOCTYPE declarations; documents declaring an encoding the parser cannot decode (the class, or MosInvalidXML - nothing else may escape)."
    ' Round 11: every shape classified right after ANOTHER document with the same messageID went through MosFile.from_string / MosReader.from_string / MosCollection.from_strings, and from a path just rewritten with another message.')
ASSUMPTIONS = [
    'at most one recognised message element is a direct child of the root (two would be ambiguous)',
    'a message element with no children at all (not schema-valid) may classify as its class or as UnknownMosFileType',
    'damaged texts on which ElementTree raises something other than ParseError are not generated',
]
MANDATORY = ['message-element-without-roID', 'source:ea', 'undecodable-declared-encoding', 'str-with-bom-or-foreign-declaration', 'envelope-without-messageID', 'source:relfile', 'decorated', 'utf8-bom', 'namespaced', 'attributes', 'filter:error', 'source:bytes', 'source:file', 'encoding:latin1', 'encoding:utf16', 'encoding:utf16be', 'ea-shape:unlisted', 'ea-shape:listed',
             'ea-op:unknown', 'ea-op:missing', 'ea-source:absent', 'malformed', 'unknown-root',
             'nested-decoy', 'envelope-permuted', 'plain-tag']

TAG_ORDER = list(B.TAG_CLASS.keys()) + ['roElementAction']


def expected(text):
    """-> set of acceptable outcomes: class names and/or exception names."""
    try:
        root = ET.fromstring(text)
    except ET.ParseError:
        return {'MosInvalidXML'}
    found = [t for t in TAG_ORDER if root.find(t) is not None]
    if not found:
        return {'UnknownMosFileType'}
    if len(found) > 1:
        return None                      # ambiguous: outside the stated domain
    tag = found[0]
    el = root.find(tag)
    if tag != 'roElementAction':
        if len(el) == 0:
            return {B.TAG_CLASS[tag], 'UnknownMosFileType'}
        return {B.TAG_CLASS[tag]}
    if len(el) == 0:
        return {'UnknownMosFileType'}
    op = el.attrib.get('operation')
    tgt, src = el.find('element_target'), el.find('element_source')
    if src is None:
        return {'UnknownMosFileType'}
    t_item = tgt is not None and len(tgt.findall('itemID')) > 0
    s_item = len(src.findall('itemID')) > 0
    return {B.EA_TABLE.get((op, t_item, s_item), 'UnknownMosFileType')}


ENCODINGS = {'latin1': ('ISO-8859-1', 'iso-8859-1'), 'utf16': ('UTF-16', 'utf-16'),
             'utf16be': ('UTF-16', 'utf-16-be')}


def encoded(text, enc):
    """The document as bytes in a declared non-UTF-8 encoding (raises if not encodable).
    utf16: platform order with BOM; utf16be: big-endian with BOM and a trailing newline."""
    decl, codec = ENCODINGS[enc]
    body = text[text.index('?>') + 2:] if text.startswith('<?xml') else text
    doc = f'<?xml version="1.0" encoding="{decl}"?>' + body
    if enc == 'utf16be':
        return b'\xfe\xff' + (doc + '\n').encode(codec)
    return doc.encode(codec)


def encodable(text, enc):
    try:
        encoded(text, enc)
        return True
    except (UnicodeEncodeError, ValueError):
        return False


def _tmp():
    # per process (workers are forked: never cache the path across a fork)
    d = os.path.join(env.WORK_DIR, f'c08-{os.getpid()}')
    os.makedirs(d, exist_ok=True)
    return d


def classify(text, source='str', filt='default'):
    """-> outcome name (class name or exception type name) and site."""
    with warnings.catch_warnings():
        warnings.simplefilter('error' if filt == 'error' else ('ignore' if filt == 'ignore' else 'default'))
        try:
            if source.startswith('ea:'):
                # the ElementAction base class classifies too (documented entry point for roElementAction)
                from mosromgr.mostypes import ElementAction
                if source == 'ea:str':
                    mo = ElementAction.from_string(text)
                elif source == 'ea:bytes':
                    mo = ElementAction.from_string(text.encode('utf-8'))
                else:
                    path = os.path.join(_tmp(), 'ea.mos.xml')
                    with open(path, 'wb') as f:
                        f.write(text.encode('utf-8'))
                    mo = ElementAction.from_file(path)
            elif source == 'str':
                mo = MosFile.from_string(text)
            elif source == 'str:bom':
                # text read from a BOM-prefixed UTF-8 file with encoding='utf-8' keeps U+FEFF
                mo = MosFile.from_string('\ufeff' + text)
            elif source.startswith('str:decl-'):
                # a str still carrying the declaration of the encoding it was decoded from
                body = text[text.index('?>') + 2:] if text.startswith('<?xml') else text
                mo = MosFile.from_string(f'<?xml version="1.0" encoding="{source[9:]}"?>' + body)
            elif ':undecodable:' in source:
                body = text[text.index('?>') + 2:] if text.startswith('<?xml') else text
                raw = (f'<?xml version="1.0" encoding="{source.split(":")[2]}"?>' + body).encode('ascii', 'xmlcharrefreplace')
                if source.startswith('bytes'):
                    mo = MosFile.from_string(raw)
                else:
                    path = os.path.join(_tmp(), 'und.mos.xml')
                    with open(path, 'wb') as f:
                        f.write(raw)
                    mo = MosFile.from_file(path)
            elif source == 'bytes':
                mo = MosFile.from_string(text.encode('utf-8'))
            elif source == 'bytes:utf8bom':
                mo = MosFile.from_string(b'\xef\xbb\xbf' + text.encode('utf-8'))
            elif source.startswith('bytes:'):
                mo = MosFile.from_string(encoded(text, source.split(':')[1]))
            elif source == 'relfile':
                # named relative to the current directory, editor-backup style
                old = os.getcwd()
                os.chdir(_tmp())
                try:
                    with open('~$doc.mos.xml', 'wb') as f:
                        f.write(text.encode('utf-8'))
                    mo = MosFile.from_file('~$doc.mos.xml')
                finally:
                    os.chdir(old)
            else:
                path = os.path.join(_tmp(), 'doc.mos.xml')
                with open(path, 'wb') as f:
                    f.write(encoded(text, source.split(':')[1]) if ':' in source else text.encode('utf-8'))
                mo = MosFile.from_file(path)
            return type(mo).__name__, None
        except Exception as e:
            name, _m, _is_mos, site = classify_exc(e)
            return name, site


def _feed(case):
    """Replays carry the document that went through the named entry point first."""
    from mosromgr.moscollection import MosCollection, MosReader
    fn = {'MosFile.from_string': lambda d: MosFile.from_string(d),
          'MosReader.from_string': lambda d: MosReader.from_string(d),
          'MosCollection.from_strings': lambda d: MosCollection.from_strings(
              [B.tostring(B.envelope(_payload_for('roCreate'), 1)), d], allow_incomplete=True)}[case['after']]
    with warnings.catch_warnings():
        warnings.simplefilter('ignore')
        try:
            fn(case['prev'])
        except Exception:
            pass


def judge_doc(case):
    exp = expected(case['doc'])
    if exp is None:
        return []
    if 'prev' in case:
        _feed(case)
    if case.get('source', '').startswith('ea:'):
        try:
            if ET.fromstring(case['doc']).find('roElementAction') is None:
                return []        # the ElementAction entry point is for roElementAction documents
        except ET.ParseError:
            return []
    got, site = classify(case['doc'], case.get('source', 'str'), case.get('filter', 'default'))
    if ':undecodable:' in case.get('source', ''):
        exp = set(exp) | {'MosInvalidXML'}
    if got in exp:
        return []
    kind = 'exception' if site else 'class'
    conf = f"{case.get('source', 'str')}/{case.get('filter', 'default')}"
    sig = (f'C08|raised-{got}|{site}|{case.get("filter", "default")}' if site else
           f'C08|{sorted(exp)[0]}->{got}|{case.get("filter", "default")}')
    return [Failure(PROP, sig,
                    f'classification ({conf}) gave {got} ({kind}{" at " + site if site else ""}), '
                    f'expected {sorted(exp)}', sorted(exp), got)]


def judge_meta(case):
    """Metamorphic: the outcome is the same for every variant of one document."""
    outs = {}
    for name, text in case['variants'].items():
        outs[name] = classify(text)[0]
    if len(set(outs.values())) > 1:
        return [Failure(PROP, 'C08|metamorphic|outcome-depends-on-layout',
                        f'variants of one document classify differently: {outs}')]
    return []


def rejudge(case):
    if 'variants' in case:
        return judge_meta(case)
    return judge_doc(case)


def decorate(text, k):
    """Harmless XML around / inside the document: comments, a processing instruction, an XML
    declaration - none of them may influence the classification."""
    root_end = text.index('>') + 1 if not text.startswith('<?xml') else None
    if k % 4 == 0 or root_end is None:
        return '<?xml version="1.0"?>\n<!-- exported -->\n' + text + '\n<!-- end -->\n'
    if k % 4 == 1:
        return text[:root_end] + '<!-- roCreate roDelete roElementAction -->' + text[root_end:]
    if k % 4 == 2:
        return '<?xml-stylesheet type="text/xsl" href="mos.xsl"?>' + text[:root_end] + '<?pi roStorySend?>' + text[root_end:]
    if h64(text, 'doctype') % 2:
        # a document type declaration: a system identifier, or an internal subset declaring an entity
        return ('<!DOCTYPE mos SYSTEM "mos.dtd">\n' if h64(text, 'dt2') % 2 else
                '<!DOCTYPE mos [<!ENTITY station "BBC">]>\n') + text
    return text + '\n\n'


def record_doc(col, text, classes, sources=('str', 'bytes', 'file'), filters=('default', 'error'),
               encodings=True):
    sources = list(sources)
    if encodings and expected(text) not in (None, {'MosInvalidXML'}):
        k = h64(text) % 8
        if k < 4:
            # a decorated twin: same expected outcome (ElementTree drops comments and PIs)
            deco = decorate(text, k)
            try:
                if expected(deco) == expected(text):
                    for source in ('str', 'bytes', 'file'):
                        case = {'doc': deco, 'source': source, 'filter': 'default'}
                        col.record(case, True, list(classes) + ['decorated', f'source:{source}'], judge_doc(case),
                                   key=h64(deco, source))
            except Exception:
                pass
        if k == 5:
            case = {'doc': text, 'source': 'bytes:utf8bom', 'filter': 'default'}
            col.record(case, True, list(classes) + ['utf8-bom'], judge_doc(case), key=h64(text, 'bom'))
            for src in ('str:bom', 'str:decl-ISO-8859-1', 'str:decl-UTF-16', 'str:decl-US-ASCII'):
                case = {'doc': text, 'source': src, 'filter': 'default'}
                col.record(case, True, list(classes) + ['str-with-bom-or-foreign-declaration'], judge_doc(case),
                           key=h64(text, src))
        if k in (6, 7):
            # the same document in a poorer envelope: no messageID, no mosID (k == 7: nothing but the body)
            try:
                root = ET.fromstring(text)
                for tag in ('messageID', 'mosID', 'ncsID')[:1 if k == 6 else 3]:
                    for c in root.findall(tag):
                        root.remove(c)
                bare = ET.tostring(root, encoding='unicode')
                if expected(bare) == expected(text):
                    for source in ('str', 'bytes', 'file'):
                        case = {'doc': bare, 'source': source, 'filter': 'default'}
                        col.record(case, True, list(classes) + ['envelope-without-messageID'], judge_doc(case),
                                   key=h64(bare, source))
                # ... and the message element itself without its roID child (other children kept):
                # the element's presence decides, not what it holds
                root2 = ET.fromstring(text)
                for el in root2:
                    rid = el.find('roID')
                    if rid is not None and len(el) > 1:
                        el.remove(rid)
                noid = ET.tostring(root2, encoding='unicode')
                if noid != text and expected(noid) == expected(text):
                    for source in ('str', 'file'):
                        case = {'doc': noid, 'source': source, 'filter': 'default'}
                        col.record(case, True, list(classes) + ['message-element-without-roID'], judge_doc(case),
                                   key=h64(noid, source))
            except ET.ParseError:
                pass
    if encodings:
        # the same document in a declared ISO-8859-1 / UTF-16 encoding, from bytes and from a file
        for enc in ENCODINGS:
            if encodable(text, enc):
                sources += [f'bytes:{enc}', f'file:{enc}']
    if 'file' in sources and h64(text) % 4 == 0:
        sources.append('relfile')
    if '<roElementAction' in text and h64(text, 'ea') % 3 == 0:
        sources += ['ea:str', 'ea:bytes', 'ea:file']
    if encodings and h64(text, 'und') % 6 == 0 and expected(text) not in (None, {'MosInvalidXML'}):
        # the document declares an encoding the parser underneath cannot decode: classification is
        # TOTAL - the class the message element determines, or MosInvalidXML, nothing else escapes
        for enc in ('Shift_JIS', 'UTF-32', 'UCS-2', 'Big5', 'ANSI')[h64(text, 'e') % 5:][:2]:
            for src in ('bytes', 'file'):
                case = {'doc': text, 'source': f'{src}:undecodable:{enc}', 'filter': 'default'}
                col.record(case, True, list(classes) + ['undecodable-declared-encoding'], judge_doc(case),
                           key=h64(text, src, enc))
    for source in sources:
        for filt in filters:
            case = {'doc': text, 'source': source, 'filter': filt}
            cl = list(classes) + [f'source:{source.split(":")[0]}', f'filter:{filt}']
            if ':' in source:
                cl.append(f'encoding:{source.split(":")[1]}')
            col.record(case, True, cl, judge_doc(case), key=h64(text, source, filt))


# --------------------------------------------------------------- enumerations

def _payload_for(tag):
    ro_id = 'RO1'
    s = gen.plain_story('S9', ['I9'])
    it = B.mk_item('J9', slug='x')
    return {
        'roCreate': lambda: B.ro_create(ro_id, [gen.plain_story('S0', ['I0'])]),
        'roStorySend': lambda: B.story_send(ro_id, 'S0', body=[B.P('x')]),
        'roStoryAppend': lambda: B.story_append(ro_id, [s]),
        'roStoryDelete': lambda: B.story_delete(ro_id, ['S0']),
        'roStoryInsert': lambda: B.story_insert(ro_id, 'S0', [s]),
        'roStoryMove': lambda: B.story_move(ro_id, ['S0', 'S1']),
        'roStoryReplace': lambda: B.story_replace(ro_id, 'S0', [s]),
        'roItemDelete': lambda: B.item_delete(ro_id, 'S0', ['I0']),
        'roItemInsert': lambda: B.item_insert(ro_id, 'S0', 'I0', [it]),
        'roItemMoveMultiple': lambda: B.item_move_multiple(ro_id, 'S0', ['I1', 'I0']),
        'roItemReplace': lambda: B.item_replace(ro_id, 'S0', 'I0', [it]),
        'roReplace': lambda: B.ro_replace(ro_id, [s]),
        'roMetadataReplace': lambda: B.metadata_replace(ro_id, [T('roChannel', 'x')]),
        'roReadyToAir': lambda: B.ready_to_air(ro_id),
        'roDelete': lambda: B.ro_delete(ro_id),
        'roElementAction': lambda: B.ea_story_move(ro_id, 'S0', ['S1']),
    }[tag]()


def enum_plain_docs():
    """(classes, text) for every tag x every envelope order x decoys."""
    for tag in TAG_ORDER:
        for order in itertools.permutations(['mosID', 'ncsID', 'messageID', 'body']):
            root = B.envelope(_payload_for(tag), 77, ncs_id='NCS', order=order)
            cl = ['plain-tag', f'tag:{tag}']
            if order != ('mosID', 'ncsID', 'messageID', 'body'):
                cl.append('envelope-permuted')
            yield cl, B.tostring(root)
        # nested decoys: another message tag below a non-message sibling and inside the payload
        for decoy in TAG_ORDER:
            if decoy == tag:
                continue
            root = B.envelope(_payload_for(tag), 77)
            root.insert(0, E('mosExternalMetadata', E('mosPayload', _payload_for(decoy))))
            body = root.find(tag)
            body.append(E('wrapper', _payload_for(decoy)))
            yield ['plain-tag', 'nested-decoy', f'tag:{tag}'], B.tostring(root)
    # completed running order: roCreate + mosromgrmeta/roDelete (nested, so not a roDelete document)
    root = B.envelope(_payload_for('roCreate'), 5)
    root.append(E('mosromgrmeta', _payload_for('roDelete')))
    yield ['plain-tag', 'nested-decoy', 'completed-ro'], B.tostring(root)
    # no message element at all, and a message element as the root itself
    yield ['unknown-root'], '<mos><mosID>M</mosID><messageID>1</messageID></mos>'
    yield ['unknown-root'], '<mos/>'
    yield ['unknown-root'], '<html><body><p>hi</p></body></html>'
    yield ['unknown-root'], B.tostring(_payload_for('roCreate'))
    yield ['unknown-root'], '<mos><heartbeat><time>x</time></heartbeat><messageID>3</messageID></mos>'
    for tag in TAG_ORDER:
        # attributes on the envelope and on the message element never matter
        root = B.envelope(_payload_for(tag), 78)
        root.attrib.update({'version': '2.8', 'changeDate': 'x'})
        root.find(tag).attrib.update({'id': 'roCreate', 'class': 'roDelete'})
        root.text = 'stray text '
        yield ['plain-tag', 'attributes', f'tag:{tag}'], B.tostring(root)
        # a default namespace: the elements are then not the (un-namespaced) MOS elements
        ns = B.tostring(B.envelope(_payload_for(tag), 79)).replace('<mos>', '<mos xmlns="http://example.com/mos">', 1)
        yield ['unknown-root', 'namespaced'], ns
        pre = B.tostring(B.envelope(_payload_for(tag), 80)).replace('<mos>', '<mos xmlns:m="http://example.com/m">', 1)
        yield ['plain-tag', 'unused-prefix-declared', f'tag:{tag}'], pre
    for tag in TAG_ORDER:
        yield ['childless-message-element'], f'<mos><mosID>M</mosID><messageID>1</messageID><{tag}/></mos>'
        yield ['childless-message-element'], f'<mos><messageID>1</messageID><{tag} operation="MOVE"> </{tag}></mos>'


OPS = ['REPLACE', 'DELETE', 'INSERT', 'SWAP', 'MOVE', 'BOGUS', 'move', '', None]
TARGETS = {
    'absent': None, 'empty': [], 'storyID': lambda: B.ea_target('S0'),
    'storyID+itemID': lambda: B.ea_target('S0', 'I0'), 'itemID-only': lambda: B.ea_target(None, 'I0'),
    'blank-storyID': lambda: B.ea_target(''), 'blank-both': lambda: B.ea_target('', ''),
    'nested-itemID': lambda: [T('storyID', 'S0'), E('wrapper', T('itemID', 'I0'))],
}
SOURCES = {
    'absent': None, 'empty': [], 'storyIDs': lambda: [T('storyID', 'S1'), T('storyID', 'S2')],
    'itemIDs': lambda: [T('itemID', 'I1'), T('itemID', 'I2')],
    'stories': lambda: [gen.plain_story('N0', ['J0'])],
    'items': lambda: [B.mk_item('J0', slug='x')],
    'storyID+itemID': lambda: [T('storyID', 'S1'), T('itemID', 'I1')],
    'blank-itemID': lambda: [T('itemID', None)],
}


def enum_ea_shapes():
    """(label, text, expected set) for every roElementAction shape."""
    for op in OPS:
        for tn, tv in TARGETS.items():
            for sn, sv in SOURCES.items():
                tgt = tv() if callable(tv) else tv
                src = sv() if callable(sv) else sv
                body = B.element_action('RO1', op, tgt, src)
                text = B.tostring(B.envelope(body, 9))
                yield (op, tn, sn), text, expected(text)


def shard_enum(args):
    col = Collector(PROP)
    for cl, text in enum_plain_docs():
        record_doc(col, text, cl)
    for (op, tn, sn), text, exp in enum_ea_shapes():
        cl = ['ea-shape:listed' if exp != {'UnknownMosFileType'} else 'ea-shape:unlisted']
        if op is None:
            cl.append('ea-op:missing')
        elif op not in ('REPLACE', 'DELETE', 'INSERT', 'SWAP', 'MOVE'):
            cl.append('ea-op:unknown')
        if sn == 'absent':
            cl.append('ea-source:absent')
        record_doc(col, text, cl)
    col.scopes.append('classification: 16 tags x 24 envelope orders x 15 nested decoys; '
                      f'roElementAction {len(OPS)} operations x {len(TARGETS)} target shapes x '
                      f'{len(SOURCES)} source shapes; x {{str, bytes, file}} x {{default, error}}')
    return col


def shard_after_others(args):
    """Classification is decided by the document alone - not by what this process has classified before.
    Every roElementAction shape and every plain tag is classified right after ANOTHER document carrying
    the same messageID (and, for files, written to the same path) went through each entry point that
    classifies: MosFile.from_string, MosReader.from_string, MosCollection.from_strings, MosFile.from_file."""
    from mosromgr.moscollection import MosCollection, MosReader
    col = Collector(PROP)
    docs = [t for _l, t, _e in enum_ea_shapes()]
    docs = docs[::3] + [B.tostring(B.envelope(_payload_for(tag), 9)) for tag in TAG_ORDER]
    path = os.path.join(_tmp(), 'inbox.mos.xml')
    os.makedirs(_tmp(), exist_ok=True)
    feeders = {
        'MosFile.from_string': lambda d: MosFile.from_string(d),
        'MosReader.from_string': lambda d: MosReader.from_string(d),
        'MosCollection.from_strings': lambda d: MosCollection.from_strings(
            [B.tostring(B.envelope(_payload_for('roCreate'), 1)), d], allow_incomplete=True),
    }
    n = 0
    for step_ in (1, 7, 53):
        for i, doc in enumerate(docs):
            prev = docs[(i + step_) % len(docs)]
            for fname, feed in feeders.items():
                case = {'doc': doc, 'source': 'str', 'after': fname, 'prev': prev}
                col.record(case, True, ['after-another-document-with-the-same-messageID', f'after:{fname}'],
                           judge_doc(case), key=h64(doc, prev, fname))
                n += 1
            # the same path rewritten with another message
            for d in (prev, doc):
                with open(path, 'w', encoding='utf-8') as f:
                    f.write(d)
                try:
                    with warnings.catch_warnings():
                        warnings.simplefilter('ignore')
                        got, site = type(MosFile.from_file(path)).__name__, None
                except Exception as e:
                    got, _m, _is, site = classify_exc(e)
            exp = expected(doc)
            fails = []
            if exp is not None and got not in exp:
                fails = [Failure(PROP, f'C08|path-rewritten|{sorted(exp)[0]}->{got}',
                                 f'a path rewritten with another message: from_file gave {got}, expected {sorted(exp)}',
                                 sorted(exp), got)]
            col.record({'doc': doc, 'source': 'file', 'after': 'same path held: ' + prev[:80]}, True,
                       ['after-another-document-at-the-same-path'], fails, key=h64(doc, prev, 'path'))
    col.scopes.append(f'classification after another document with the same messageID / at the same path: {n} ordered pairs x 3 entry points')
    return col


# ------------------------------------------------------------------ hypothesis

@st.composite
def document(draw):
    """-> dict(doc=text, classes=[...], variants={...})"""
    classes = []
    kind = draw(st.sampled_from(['message', 'message', 'message', 'ro', 'none', 'foreign']))
    others = [T('mosID', 'M'), T('messageID', str(draw(st.integers(1, 99999))))]
    if draw(st.booleans()):
        others.append(T('ncsID', 'NCS'))
    others += draw(st.lists(gen.generic(depth=2), max_size=2))
    if kind == 'foreign':
        root = draw(gen.generic(depth=2))
        classes.append('unknown-root')
        text = B.tostring(root)
        return {'doc': text, 'classes': classes, 'variants': {'a': text, 'b': B.tostring(root, pretty=True)}}
    body = None
    if kind == 'ro':
        body = ET.fromstring(draw(gen.running_order(max_stories=3))['ro_xml']).find('roCreate')
    elif kind == 'message':
        state = [('S0', ['I0', 'I1']), ('S1', ['I0']), ('S2', [])]
        _k, x = draw(gen.message(state, 'RO1', faults='heavy', degenerate=True))
        body = [c for c in ET.fromstring(x) if c.tag in TAG_ORDER][0]
        if body.tag == 'roElementAction' and draw(st.integers(0, 3)) == 0:
            # perturb the shape
            what = draw(st.sampled_from(['op', 'drop-target', 'drop-source', 'add-itemid', 'noop']))
            if what == 'op':
                newop = draw(st.sampled_from(OPS))
                if newop is None:
                    body.attrib.pop('operation', None)
                else:
                    body.attrib['operation'] = newop
            elif what == 'drop-target' and body.find('element_target') is not None:
                body.remove(body.find('element_target'))
            elif what == 'drop-source' and body.find('element_source') is not None:
                body.remove(body.find('element_source'))
            elif what == 'add-itemid' and body.find('element_target') is not None:
                body.find('element_target').append(T('itemID', 'I0'))
            classes.append('ea-perturbed')
    else:
        classes.append('unknown-root')
    # nested decoys never matter
    if draw(st.integers(0, 2)) == 0:
        decoy = _payload_for(draw(st.sampled_from(TAG_ORDER)))
        others.append(E('wrapper', decoy))
        classes.append('nested-decoy')
    children = list(others)
    if body is not None:
        children.insert(draw(st.integers(0, len(children))), body)
    root = E('mos', *children)
    text = B.tostring(root)
    perm = list(draw(gen.permutation(children)))
    variants = {'orig': text, 'pretty': B.tostring(root, pretty=True),
                'permuted': B.tostring(E('mos', *perm))}
    if perm != children:
        classes.append('envelope-permuted')
    return {'doc': text, 'classes': classes, 'variants': variants}


@st.composite
def damaged(draw):
    d = draw(document())
    text = d['doc']
    how = draw(st.sampled_from(['truncate', 'delete', 'insert', 'swap-tag']))
    if how == 'truncate':
        text = text[:draw(st.integers(0, max(0, len(text) - 1)))]
    elif how == 'delete':
        i = draw(st.integers(0, max(0, len(text) - 1)))
        text = text[:i] + text[i + 1:]
    elif how == 'insert':
        i = draw(st.integers(0, len(text)))
        text = text[:i] + draw(st.sampled_from(['<', '>', '&', '</x>', '<x>', '"', '\x00', ']]>'])) + text[i:]
    else:
        text = text.replace('</', '<', 1)
    return text


def shard_hyp(args):
    n, seed = args
    col = Collector(PROP)

    def one(d):
        record_doc(col, d['doc'], d['classes'] or ['plain'], sources=('str', 'bytes'))
        case = {'variants': d['variants']}
        col.record(case, True, ['metamorphic'], judge_meta(case), key=h64(d['doc'], 'meta'))
    drive.run_given(document(), one, n, seed)

    def two(text):
        try:
            ET.fromstring(text)
            wf = True
        except ET.ParseError:
            wf = False
        except Exception:
            col.excluded['damaged text on which ElementTree raises a non-ParseError'] += 1
            return
        record_doc(col, text, ['malformed' if not wf else 'damaged-but-well-formed'],
                   sources=('str', 'bytes'), encodings=False)
    drive.run_given(damaged(), two, n // 2, seed + 7)
    shutil.rmtree(_tmp(), ignore_errors=True)
    return col


def shard_subprocess(args):
    """A sample of documents classified in a real `python -W error` interpreter."""
    col = Collector(PROP)
    docs = [t for _c, t in enum_plain_docs()][::40] + [t for _l, t, _e in enum_ea_shapes()][::15]
    prog = (
        "import sys, json\n"
        f"sys.path.insert(0, {env.REPO_DIR!r})\n"
        "import logging; logging.disable(logging.CRITICAL)\n"
        "from mosromgr.mostypes import MosFile\n"
        "out = []\n"
        "for d in json.load(sys.stdin):\n"
        "    try:\n"
        "        out.append(type(MosFile.from_string(d)).__name__)\n"
        "    except Exception as e:\n"
        "        out.append(type(e).__name__)\n"
        "print(json.dumps(out))\n")
    import json
    r = subprocess.run([sys.executable, '-B', '-W', 'error', '-c', prog], input=json.dumps(docs),
                       capture_output=True, text=True, timeout=300,
                       env=dict(os.environ, PYTHONDONTWRITEBYTECODE='1'))
    if r.returncode != 0:
        # the interpreter could not even import the library under -W error
        raise env.HarnessError(f'-W error subprocess failed to run: {r.stderr[-800:]}')
    outs = json.loads(r.stdout.strip().splitlines()[-1])
    for d, got in zip(docs, outs):
        exp = expected(d)
        case = {'doc': d, 'source': 'str', 'filter': 'error'}
        fails = []
        if exp is not None and got not in exp:
            fails = [Failure(PROP, f'C08|subprocess -W error|got-{got}',
                             f'`python -W error`: classification gave {got}, expected {sorted(exp)}')]
        col.record(case, True, ['subprocess:-W error', 'filter:error'], fails, key=h64(d, 'subproc'))
    return col


def run(tier, seed, procs):
    quick = tier == 'quick'
    cols = drive.pool_map(shard_enum, [None], 1)
    shards, per = (8, 150) if quick else (16, 12000)
    cols += drive.pool_map(shard_hyp, [(per, seed * 1000 + i) for i in range(shards)], procs)
    cols += drive.pool_map(shard_subprocess, [None], 1)
    cols += drive.pool_map(shard_after_others, [None], 1)
    shutil.rmtree(_tmp(), ignore_errors=True)
    if not quick:
        # coverage-guided campaign (atheris/libFuzzer over the same strategies)
        from vlib import fuzz
        if fuzz.available():
            cols += drive.pool_map(fuzz.campaign, [('c08', PROP, 40000, seed, i) for i in range(procs)], procs)
        else:
            cols[0].notes.append('atheris not importable: coverage-guided campaign skipped (Hypothesis only)')
    return drive.merge_all(PROP, cols)
