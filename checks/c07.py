"""C07 - completion by roDelete is faithful, terminal and survives a round trip."""
import warnings
from xml.etree import ElementTree as ET

from hypothesis import strategies as st

from vlib import env, drive, gen, colgen, build as B, xmlcmp, findings
from vlib.xmlcmp import canon
from vlib.findings import Collector, h64
from vlib.step import Failure

from mosromgr.exc import MosCompletedMergeError, MosMergeError, MosMergeNonStrictWarning
from mosromgr.moscollection import MosCollection
from mosromgr.mostypes import MosFile, RunningOrder

PROP = 'C07'
MOD = 'checks.c07'
RULE = (
    "Cases: Hypothesis histories - a rich roCreate, a prefix of 0-6 messages of any kind drawn against "
    "the state reached (round-tripped through text at drawn points), a roDelete with generic envelope "
    "content, then one message of EACH of the 24 merging kinds plus a second roDelete and a roCreate, "
    "in a drawn order, plus one message whose messageID is absent, blank or non-numeric, each sent to the live object, to a round-tripped copy, and through strict and "
    "non-strict MosCollection merges.  Oracle: before the roDelete `completed` is False (also after a "
    "round trip); after it `completed` is True, the roCreate subtree is canon-equal to before, the "
    "root has exactly one mosromgrmeta child holding an element canon-equal to the message's "
    "roDelete element, outside roCreate; every later `ro += m` raises MosCompletedMergeError and "
    "leaves str(ro) unchanged; MosFile.from_string(str(ro)) is exactly RunningOrder, completed, with "
    "the same serialisation, and refuses messages too; `mosromgr detect` (from a file, an S3 key, an S3 prefix) prints '(completed)' for the completed document and not for the open one; MosCollection.completed is False before the merge, True for a saved completed running order, and agrees with the completion record after every merge (also a strict one that stopped early); strict collection merge raises "
    "MosCompletedMergeError at the first message after the roDelete, non-strict finishes with the "
    "state at completion and one MosMergeNonStrictWarning per later message; the same when the completed running order is written out and given to a collection together with the late messages; one roDelete in five names another (or a blank) roID and is merged directly only.  Non-trivial = >= 1 "
    "effective merge before the roDelete and >= 3 distinct message classes after it.")
ASSUMPTIONS = ['documents carrying mosromgrmeta are only ever produced by the library itself']
MANDATORY = ['effective-prefix', 'after:all-26-classes', 'collection:strict', 'collection:non-strict',
             'roundtrip-completed', 'roundtrip-not-completed']


def _merge(ro, text):
    try:
        ro += MosFile.from_string(text)
        return None
    except Exception as e:
        return e


def _cli_detect(doc, via='file'):
    """stdout of `mosromgr detect -f <file holding doc>` (None if the command could not be run)."""
    import contextlib
    import io
    import os
    from mosromgr.cli import main
    d = env.ensure_dir(os.path.join(env.WORK_DIR, f'c07-{os.getpid()}'))
    path = os.path.join(d, 'ro.mos.xml')
    with open(path, 'w', encoding='utf-8') as f:
        f.write(doc)
    out, err = io.StringIO(), io.StringIO()
    try:
        with contextlib.redirect_stdout(out), contextlib.redirect_stderr(err):
            if via == 'file':
                main(['detect', '-f', path])
            else:
                from vlib import fakes3
                with fakes3.FakeS3({'bkt': {'pre/ro.mos.xml': doc.encode('utf-8')}}):
                    main(['detect', '-b', 'bkt'] + (['-k', 'pre/ro.mos.xml'] if via == 's3-key' else ['-p', 'pre/']))
    except BaseException as e:
        return f'{type(e).__name__} escaped'
    finally:
        os.unlink(path)
    return out.getvalue().replace(path, '<file>').strip()


def judge_case(case):
    fails = []

    def fail(sig, detail, exp=None, got=None):
        fails.append(Failure(PROP, f'C07|{sig}', detail, exp, got))
    with warnings.catch_warnings():
        warnings.simplefilter('ignore')
        ro = RunningOrder.from_string(case['ro_xml'])
        effective = 0
        for i, text in enumerate(case['prefix']):
            before = str(ro)
            _merge(ro, text)
            if str(ro) != before:
                effective += 1
            if ro.completed:
                fail('completed-without-roDelete', f'completed is True after prefix message #{i} '
                     f'({type(MosFile.from_string(text)).__name__}) although no roDelete was merged')
            if i in case.get('roundtrip_at', []):
                rt = MosFile.from_string(str(ro))
                if type(rt) is not RunningOrder or rt.completed:
                    fail('roundtrip-of-open-ro', f'open running order reads back as {type(rt).__name__} '
                         f'completed={rt.completed}')
                ro = rt
        rt = MosFile.from_string(str(ro))
        if type(rt) is not RunningOrder or rt.completed:
            fail('roundtrip-of-open-ro', f'open running order reads back as {type(rt).__name__} completed={rt.completed}')
        open_text = str(ro)
        content_before = canon(ET.fromstring(str(ro)).find('roCreate'))
        inside_before = len(list(ET.fromstring(str(ro)).find('roCreate').iter('mosromgrmeta')))
        env_before = [canon(c) for c in ET.fromstring(str(ro)) if c.tag != 'roCreate']
        e = _merge(ro, case['delete'])
        if e is not None:
            fail('roDelete-raised', f'merging the roDelete raised {type(e).__name__}: {e}')
            return fails, effective
        root = ET.fromstring(str(ro))
        if not ro.completed:
            fail('not-completed-after-roDelete', 'completed is False after merging a roDelete')
        if canon(root.find('roCreate')) != content_before:
            fail('content-changed-by-completion', xmlcmp.first_diff(content_before, canon(root.find('roCreate'))))
        if [canon(c) for c in root if c.tag not in ('roCreate', 'mosromgrmeta')] != env_before:
            fail('envelope-changed-by-completion', 'envelope children changed')
        metas = [c for c in root if c.tag == 'mosromgrmeta']
        sent = ET.fromstring(case['delete']).find('roDelete')
        if len(metas) != 1 or not any(canon(x) == canon(sent) for x in metas[0]):
            fail('roDelete-not-recorded', f'{len(metas)} mosromgrmeta children; the sent roDelete is not recorded intact')
        if len(list(root.find('roCreate').iter('mosromgrmeta'))) != inside_before:
            fail('record-inside-roCreate', 'completion record found inside roCreate')
        done = str(ro)
        rt = MosFile.from_string(done)
        if type(rt) is not RunningOrder:
            fail('completed-ro-misclassified', f'completed running order reads back as {type(rt).__name__}')
            rt = None
        elif not rt.completed or str(rt) != done:
            fail('completed-flag-lost-in-roundtrip', f'read back: completed={rt.completed}, same text={str(rt) == done}')
        # what `mosromgr detect` says about the two documents: '(completed)' exactly for the completed one
        for label, doc, want in (('open', open_text, False), ('completed', done, True)):
            for via in ('file', 's3-key', 's3-prefix'):
                said = _cli_detect(doc, via)
                if ('(completed)' in said) != want or 'RunningOrder' not in said:
                    fail(f'cli-detect|{label}-running-order-reported-wrongly',
                         f'`mosromgr detect` ({via}) on the {label} running order prints {said!r}',
                         'RunningOrder (completed)' if want else 'RunningOrder', said)
        for text in case['after']:
            kind = type(MosFile.from_string(text)).__name__
            for name, target in (('live', ro), ('roundtrip', rt)):
                if target is None:
                    continue
                ex = _merge(target, text)
                if not isinstance(ex, MosCompletedMergeError):
                    fail(f'{kind}|accepted-after-completion' if ex is None else f'{kind}|wrong-exception-after-completion',
                         f'{name}: adding {kind} to a completed running order gave '
                         f'{type(ex).__name__ if ex else "no exception"}', 'MosCompletedMergeError',
                         type(ex).__name__ if ex else None)
                # the binary form `ro + m` is guarded like `ro += m`
                try:
                    res = target + MosFile.from_string(text)
                    ex2 = None
                except Exception as e_:
                    res, ex2 = None, e_
                if not isinstance(ex2, MosCompletedMergeError):
                    fail(f'{kind}|binary-plus-accepted-after-completion',
                         f'{name}: `ro + {kind}` on a completed running order gave '
                         f'{type(ex2).__name__ if ex2 else "no exception"}' +
                         ('' if res is None or res is target else ' and handed back another object'),
                         'MosCompletedMergeError', type(ex2).__name__ if ex2 else None)
                if str(target) != done:
                    fail(f'{kind}|changed-after-completion', f'{name}: {kind} changed a completed running order')
                    done_now = str(target)
                    if name == 'live':
                        done = done_now
        # the completed running order, written out, handed to a collection with late messages
        later = sorted(case['after_collection'], key=_mid)
        same_ro = (ET.fromstring(case['delete']).find('roDelete').findtext('roID')
                   == ET.fromstring(case['ro_xml']).find('roCreate').findtext('roID'))
        for strict in ((True, False) if later and same_ro else ()):
            try:
                mc = MosCollection.from_strings([done] + later, allow_incomplete=True)
            except Exception as e2:
                fail('saved-completed-ro-in-collection|rejected', f'{type(e2).__name__}: {e2}')
                break
            if mc.completed is not True:
                fail('collection-completed-flag|saved-completed-ro', f'mc.completed is {mc.completed!r} for a collection '
                     'whose running order carries its completion record')
            with warnings.catch_warnings(record=True) as rec:
                warnings.simplefilter('always')
                try:
                    mc.merge(strict=strict)
                    ex = None
                except Exception as e2:
                    ex = e2
            n_ns = sum(1 for w in rec if issubclass(w.category, MosMergeNonStrictWarning))
            if strict and not isinstance(ex, MosCompletedMergeError):
                fail('saved-completed-ro-in-collection|strict|no-MosCompletedMergeError',
                     f'strict merge of a saved completed running order + {len(later)} late messages gave '
                     f'{type(ex).__name__ if ex else "no exception"}')
            if not strict and (ex is not None or n_ns != len(later)):
                fail('saved-completed-ro-in-collection|non-strict|refusals-not-reported',
                     f'{type(ex).__name__ if ex else "no exception"}, {n_ns} MosMergeNonStrictWarning for '
                     f'{len(later)} late messages', len(later), n_ns)
            if str(mc) != done:
                fail('saved-completed-ro-in-collection|changed', 'late messages changed the saved running order')
        # collection variants over the same documents
        docs = [case['ro_xml']] + case['prefix'] + [case['delete']] + case['after_collection']
        for strict in ((True, False) if same_ro else ()):
            mc = MosCollection.from_strings(docs, allow_incomplete=False)
            if mc.completed is not False:
                fail('collection-completed-flag|before-merge', f'mc.completed is {mc.completed!r} before anything was '
                     'merged (the running order has not received its roDelete yet)')
            with warnings.catch_warnings(record=True) as rec:
                warnings.simplefilter('always')
                try:
                    mc.merge(strict=strict)
                    ex = None
                except Exception as e2:
                    ex = e2
            recorded = ET.fromstring(str(mc)).find('mosromgrmeta') is not None     # a direct child of the root
            if mc.completed != recorded:
                fail('collection-completed-flag|after-merge', f'mc.completed is {mc.completed!r} but the running order '
                     f'{"carries" if recorded else "does not carry"} a completion record '
                     f'(strict={strict}, merge raised {type(ex).__name__ if ex else "nothing"})')
            n_ns = sum(1 for w in rec if issubclass(w.category, MosMergeNonStrictWarning))
            if strict:
                first_fail = _first_failure(case)
                n_after = len([t for t in case['prefix'] + case['after_collection'] if _mid(t) > _mid(case['delete'])])
                if first_fail == 'after' and not isinstance(ex, MosCompletedMergeError) and n_after:
                    fail('collection-strict|no-MosCompletedMergeError',
                         f'strict merge gave {type(ex).__name__ if ex else "no exception"}')
                if first_fail == 'after' and isinstance(ex, MosCompletedMergeError):
                    # the refusal changes nothing: the collection still holds the completed running order
                    if not mc.completed or canon(ET.fromstring(str(mc)).find('roCreate')) != \
                            canon(ET.fromstring(str(_fold_prefix(case))).find('roCreate')):
                        fail('collection-strict|state-lost-by-refusal',
                             f'after the strict refusal: mc.completed={mc.completed}, content equals the state at '
                             'completion: False' if mc.completed else 'after the strict refusal the collection is no longer completed')
            else:
                if ex is not None:
                    fail('collection-non-strict|raised', f'non-strict merge raised {type(ex).__name__}')
                elif not mc.completed:
                    fail('collection-non-strict|not-completed', 'collection not completed')
                elif n_ns < len([t for t in case['prefix'] + case['after_collection'] if _mid(t) > _mid(case['delete'])]):
                    fail('collection-non-strict|missing-warnings',
                         f'{n_ns} non-strict warnings, fewer than the messages that sort after the roDelete')
                elif canon(ET.fromstring(str(mc)).find('roCreate')) != canon(ET.fromstring(str(_fold_prefix(case))).find('roCreate')):
                    fail('collection-non-strict|content-changed-after-completion',
                         'messages after the roDelete changed the running order in non-strict mode')
    return fails, effective


def _mid(text):
    return int(ET.fromstring(text).findtext('messageID').strip())


def _fold_prefix(case):
    """The running order at the moment the collection merges the roDelete: every other
    message with a lower message ID, in ascending ID order."""
    ro = RunningOrder.from_string(case['ro_xml'])
    cut = _mid(case['delete'])
    for t in sorted((t for t in case['prefix'] + case['after_collection'] if _mid(t) < cut), key=_mid):
        _merge(ro, t)
    return ro


def _first_failure(case):
    ro = RunningOrder.from_string(case['ro_xml'])
    cut = _mid(case['delete'])
    for t in sorted((t for t in case['prefix'] + case['after_collection'] if _mid(t) < cut), key=_mid):
        if _merge(ro, t) is not None:
            return 'prefix'
    return 'after'


def rejudge(case):
    return judge_case(case)[0]


def shrink(case, still):
    case = findings.shrink_list(case, 'prefix', still)
    case = findings.shrink_list(case, 'after', still)
    return findings.shrink_list(case, 'after_collection', still)


@st.composite
def cases(draw):
    col = draw(colgen.collection(min_msgs=0, max_msgs=6, faults='some', rich=True, with_delete='no',
                                 allow_no_slug=True))
    docs = col['docs']
    ro_xml, prefix = docs[0], docs[1:]
    with warnings.catch_warnings():
        warnings.simplefilter('ignore')
        ro = RunningOrder.from_string(ro_xml)
        for t in prefix:
            _merge(ro, t)
    state = xmlcmp.state_of(ET.fromstring(str(ro)))
    # the roDelete and everything sent after it sort behind every earlier message
    mid = max(int(ET.fromstring(d).findtext('messageID').strip()) for d in docs) + 1000
    # merged directly, a roDelete completes the running order whatever roID it names
    del_ro = col['ro_id'] if draw(st.integers(0, 4)) else draw(st.sampled_from(['OTHER-RO', '', col['ro_id'] + ' ']))
    delete = B.tostring(B.envelope(B.ro_delete(del_ro, draw(st.lists(gen.generic(depth=1), max_size=2))),
                                   mid, ncs_id=draw(st.none() | st.just('NCS'))),
                        pretty=draw(st.booleans()))
    after = []
    for k in draw(gen.permutation(B.ALL_KINDS)):
        mid += draw(st.integers(1, 9))
        _k, t = draw(gen.message(state, col['ro_id'], kinds=[k], faults='none', rich=False, mid=mid))
        after.append(t)
    mid += 1
    root = ET.fromstring(ro_xml)
    root.find('messageID').text = str(mid)
    after.insert(draw(st.integers(0, len(after))), ET.tostring(root, encoding='unicode'))
    # a message whose envelope lacks a usable messageID is still "any message"
    k = draw(st.integers(0, len(after) - 1))
    broken = ET.fromstring(after[k])
    mid_el = broken.find('messageID')
    if draw(st.booleans()):
        broken.remove(mid_el)
    else:
        mid_el.text = draw(st.sampled_from([None, ' ', 'abc']))
    odd = ET.tostring(broken, encoding='unicode')
    # the collection variant cannot hold a second roCreate/roDelete (C11)
    after_collection = [t for t in after
                        if type(MosFile.from_string(t)).__name__ not in ('RunningOrder', 'RunningOrderEnd')]
    n = len(prefix)
    return {'ro_xml': ro_xml, 'prefix': prefix, 'delete': delete, 'after': after + [odd],
            'after_collection': after_collection[:draw(st.integers(1, 6))],
            'roundtrip_at': draw(st.lists(st.integers(0, max(0, n - 1)), max_size=2)) if n else []}


def shard(args):
    n, seed = args
    col = Collector(PROP)

    def one(case):
        fails, effective = judge_case(case)
        classes = ['after:all-26-classes', 'collection:strict', 'collection:non-strict',
                   'roundtrip-completed', 'roundtrip-not-completed', f'prefix-len:{len(case["prefix"])}']
        if effective:
            classes.append('effective-prefix')
        col.record(case, effective >= 1, classes, fails,
                   key=h64(case['ro_xml'], *case['prefix'], case['delete']))
    drive.run_given(cases(), one, n, seed)
    return col


def run(tier, seed, procs):
    quick = tier == 'quick'
    shards, per = (8, 60) if quick else (16, 1200)
    cols = drive.pool_map(shard, [(per, seed * 1000 + i) for i in range(shards)], procs)
    return drive.merge_all(PROP, cols)
