"""C04 - stories, items and metadata carried by a message arrive intact."""
from xml.etree import ElementTree as ET

from vlib import drive, gen, step, history, build, model
from vlib.findings import h64

PROP = 'C04'
MOD = 'checks.c04'
SHRINK_FIELDS = ['ro_xml', 'msg_xml']
KINDS = ['roStoryAppend', 'roStoryInsert', 'roStoryReplace', 'roStorySend', 'roItemInsert',
         'roItemReplace', 'roReplace', 'roMetadataReplace', 'EAStoryReplace', 'EAItemReplace',
         'EAStoryInsert', 'EAItemInsert']
RULE = (
    "Cases: Hypothesis single steps and histories restricted to the 12 payload-carrying kinds, "
    "references resolvable, payloads of 1-4 carried stories/items built from fragment tables (nested "
    "generic subtrees to depth 3, attributes, mixed text and tails, markup-significant and non-ASCII "
    "text, paragraphs interleaved with items, storyID not first, storyBody at any index among the "
    "roStorySend children, nested storyItem decoys).  Oracle: each carried element is located in "
    "ro.xml after the merge (by ID, in the addressed parent) and must be canon-equal (tag, attributes, "
    "text, children, tails) to the element parsed from the *message text*; the roStorySend story is "
    "built by an independent transformation (vlib/model.story_send_to_story); roReplace content equals "
    "the sent one modulo the tag name; every carried roMetadataReplace child has an equal counterpart "
    "under roCreate.  Non-trivial = merge succeeded and (>= 2 carried elements or a carried element "
    "of depth >= 3 or with attributes/tails)."
    ' Round 11: returning-element histories (a story / item taken away by any of 10 kinds and carried in again must arrive).')
ASSUMPTIONS = ['carried stories/items have fresh IDs, or the ID of the element they replace']
MANDATORY = ['via-collection', 'StorySend', 'StoryAppend', 'StoryInsert', 'StoryReplace', 'ItemInsert', 'ItemReplace',
             'RunningOrderReplace', 'MetaDataReplace', 'EAStoryReplace', 'EAItemReplace',
             'EAStoryInsert', 'EAItemInsert', 'multi-carried', 'deep-or-attributed',
             'storysend:body-not-last', 'storysend:body-first', 'storysend:nested-storyItem']


def judge(ev):
    return step.judge_payload(ev.obs, ev.ex, ev.msg)


def _depth(e):
    return 1 + max((_depth(c) for c in e), default=0)


def _fancy(e):
    return any(x.attrib or (x.tail and x.tail.strip()) for x in e.iter())


def record(col, ev):
    m, ex = ev.msg, ev.ex
    if m.kind not in model.PAYLOAD_KINDS:
        col.record(ev.case, False, ['no-payload'], [], key=0)
        return
    ok = ev.obs.exc is None and not ev.obs.parse_exc and (ex.resolves or m.level == 'meta')
    classes = [m.kind]
    multi = len(m.payload) >= 2
    deep = any(_depth(p) >= 3 or _fancy(p) for p in m.payload)
    if multi:
        classes.append('multi-carried')
    if deep:
        classes.append('deep-or-attributed')
    if m.kind == 'StorySend':
        kids = list(m.base)
        sb = m.base.find('storyBody')
        if sb is not None and kids.index(sb) != len(kids) - 1:
            classes.append('storysend:body-not-last')
        if sb is not None and kids.index(sb) == 0:
            classes.append('storysend:body-first')
        if sb is not None and any(x.tag == 'storyItem' for c in sb for x in c.iter() if x is not c):
            classes.append('storysend:nested-storyItem')
    col.record(ev.case, ok and (multi or deep), classes, judge(ev), key=drive.ev_key(ev))


def rejudge_collection(case):
    import types
    import warnings
    from xml.etree import ElementTree as ET
    from vlib import xmlcmp
    from mosromgr.moscollection import MosCollection
    msg = model.Msg(case['msg_xml'])
    ex = model.expect(xmlcmp.state_of(ET.fromstring(case['ro_xml'])), msg)
    obs = types.SimpleNamespace(before=case['ro_xml'], after=None, exc=None, parse_exc=None, cls_name=msg.kind)
    with warnings.catch_warnings():
        warnings.simplefilter('ignore')
        try:
            mc = MosCollection.from_strings([case['msg_xml'], case['ro_xml']], allow_incomplete=True)
            obs.before = str(mc)
            mc.merge(strict=True)
        except Exception as e:
            obs.exc = e
        obs.after = str(mc)
    return step.judge_payload(obs, ex, msg)


def rejudge(case):
    if case.get('via') == 'collection':
        return rejudge_collection(case)
    if 'history' in case:
        return history.rejudge_history(case, MOD)
    return judge(drive.eval_step(case))


def shard_send_shapes(args):
    """Directed roStorySend shapes: storyBody at every index, nested storyItem
    decoys, attributes on the root, text/tails around the body."""
    from vlib.build import E, T, P
    import vlib.build as B
    from vlib.findings import Collector
    col = Collector(PROP)
    ro_xml = gen.ro_with_layout(['S0', 'S1', 'S2'], 'mixed')
    extras = [T('storySlug', 'resent'), T('storyNum', '4'),
              B.timing_block({'StoryDuration': '7'}), E('custom', T('k', 'v'), attrib={'a': '1'}),
              # a storyItem / storyBody-like element OUTSIDE the storyBody is content like any other
              E('storyItem', T('itemID', 'OUTSIDE'), T('itemSlug', 'not in the body'))]
    for sid in ('S0', 'S1', 'S2'):
        for pos in range(-2, len(extras) + 1):
            nested = B.mk_item('J1', slug='inner')
            nested.tag = 'storyItem'
            it = B.mk_item('J0', slug='outer', extras=[E('wrapper', nested)])
            it.tag = 'storyItem'
            it.tail = ' tail&'
            body = [P('one'), it, P(None), E('other', text='t', attrib={'z': '<'}), P('(note)')]
            if pos < 0:
                # storyBody before storyID (-1) and before roID (-2)
                b = B.story_send('RO1', sid, head=[], body=body, post=extras, attrib={'x': 'y'},
                                 body_index=pos + 2)
            else:
                b = B.story_send('RO1', sid, head=extras[:pos], body=body, post=extras[pos:],
                                 attrib={'x': 'y'})
            b.find('storyBody').tail = 'after-body'
            msg = B.tostring(B.envelope(b, 3000))
            record(col, drive.eval_step({'ro_xml': ro_xml, 'msg_xml': msg}))
    col.scopes.append('roStorySend: storyBody at every index among its 7 siblings (one of them a storyItem outside the body) (incl. first child, before roID/storyID) x each of 3 stories')
    return col


def shard_resend(args):
    """Two-step histories: a roStorySend, then the same story sent again with the same
    elements in another interleaving (a paragraph moved across an item), with padded
    text, or with one attribute / text changed.  The second one must arrive as sent."""
    import itertools
    from vlib.build import E, T, P
    import vlib.build as B
    from vlib.findings import Collector
    col = Collector(PROP)
    ro_xml = gen.ro_with_layout(['S0', 'S1'], 'mixed')

    def body_of(order, pad=''):
        a = B.mk_item('J0', slug='first' + pad)
        a.tag = 'storyItem'
        b = B.mk_item('J1', slug='second')
        b.tag = 'storyItem'
        parts = {'p1': P('para one' + pad), 'p2': P('(note)'), 'a': a, 'b': b,
                 'o': E('other', text='t', attrib={'z': '1'})}
        return [parts[k] for k in order]
    base = ('p1', 'a', 'p2', 'b', 'o')
    orders = [o for o in itertools.permutations(base) if o != base][::7]
    n = 0
    for sid in ('S0', 'S1'):
        first = B.tostring(B.envelope(B.story_send('RO1', sid, head=[T('storySlug', 'sent')],
                                                   body=body_of(base)), 3000))
        seconds = [body_of(o) for o in orders] + [body_of(base, pad=' '), body_of(base, pad='\n')]
        for k, body in enumerate(seconds):
            second = B.tostring(B.envelope(B.story_send('RO1', sid, head=[T('storySlug', 'sent')],
                                                        body=body), 3001 + k))
            for ev in history.replay_history([ro_xml, first, second]):
                record(col, ev)
            n += 1
    col.scopes.append(f'roStorySend twice: {n} re-sends of the same elements in another interleaving / with padded text')
    return col


def shard_via_collection(args):
    """Single steps again, but delivered the way a collection delivers them: MosCollection.from_strings
    ([roCreate, message]).merge(strict=False).  What arrives is judged with the same payload oracle."""
    import types
    import warnings
    from xml.etree import ElementTree as ET
    from vlib.findings import Collector
    from vlib import xmlcmp
    from mosromgr.moscollection import MosCollection
    n, seed = args
    col = Collector(PROP)

    def one(case):
        r, m = ET.fromstring(case['ro_xml']), ET.fromstring(case['msg_xml'])
        if r.find('messageID') is None or m.find('messageID') is None:
            return
        for rid in m.iter('roID'):                      # a collection is about ONE running order
            rid.text = r.find('roCreate').findtext('roID')
            break
        r.find('messageID').text, m.find('messageID').text = '100', '200'
        ro_xml, msg_xml = ET.tostring(r, encoding='unicode'), ET.tostring(m, encoding='unicode')
        msg = model.Msg(msg_xml)
        if msg.kind not in model.PAYLOAD_KINDS:
            return
        ex = model.expect(xmlcmp.state_of(ET.fromstring(ro_xml)), msg)
        obs = types.SimpleNamespace(before=ro_xml, after=None, exc=None, parse_exc=None, cls_name=msg.kind)
        with warnings.catch_warnings():
            warnings.simplefilter('ignore')
            try:
                mc = MosCollection.from_strings([msg_xml, ro_xml], allow_incomplete=True)
                obs.before = str(mc)
                mc.merge(strict=True)
            except Exception as e:
                obs.exc = e
            try:
                obs.after = str(mc)
            except Exception:
                return
        c2 = {'ro_xml': ro_xml, 'msg_xml': msg_xml, 'via': 'collection'}
        ok = obs.exc is None and (ex.resolves or msg.level == 'meta')
        col.record(c2, ok, [msg.kind, 'via-collection'], step.judge_payload(obs, ex, msg), key=h64(ro_xml, msg_xml, 'mc'))
    kw = dict(kinds=KINDS + ['roReplace', 'roMetadataReplace'], faults='none', rich=True, degenerate=False, min_stories=1)
    drive.run_given(gen.step_case(**kw), one, n, seed)
    return col


def run(tier, seed, procs):
    quick = tier == 'quick'
    cols = drive.pool_map(shard_send_shapes, [None], 1)
    cols += drive.pool_map(shard_via_collection, [(120 if quick else 6000, seed * 1000 + 900 + i) for i in range(4)], procs)
    cols += drive.pool_map(shard_resend, [None], 1)
    kw = dict(kinds=KINDS, faults='none', rich=True, degenerate=False, min_stories=1)
    shards, per = (8, 500) if quick else (16, 20000)
    cols += drive.pool_map(drive.shard_hyp_steps,
                           [(MOD, per, seed * 1000 + i, kw) for i in range(shards)], procs)
    hs, runs, steps = (4, 25, 20) if quick else (16, 600, 50)
    cols += drive.pool_map(history.shard_history,
                           [(MOD, runs, steps, seed * 1000 + 500 + i,
                             {'faults': 'none', 'degenerate': False,
                              'kinds': KINDS + ['roStoryDelete', 'roItemDelete']}) for i in range(hs)], procs)
    cols += drive.pool_map(history.shard_returning, [MOD], 1)
    return drive.merge_all(PROP, cols)
