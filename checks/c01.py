"""C01 - story order after any story-level merge follows the MOS protocol."""
from vlib import drive, gen, step
from vlib.findings import Collector

PROP = 'C01'
MOD = 'checks.c01'
SHRINK_FIELDS = ['ro_xml', 'msg_xml']
RULE = (
    "Cases: (a) exhaustive small scope - every running order of n stories S0..Sn-1 in each of 5 "
    "metadata layouts (none / before / between / after / mixed) x every story-level message kind "
    "(11) x every ordered tuple of <=K distinct source IDs (incl. one unknown ID) x every target in "
    "stories + {blank, absent, unknown}; (b) Hypothesis single steps: rich running orders (0-6 "
    "stories, odd IDs, metadata interleaved anywhere) x a message drawn against the state with "
    "existing/unknown/blank/missing references; (c) Hypothesis rule-based histories, each "
    "story-level step judged from the state actually reached.  Oracle: reference model "
    "(vlib/model.py) applied to the story-ID sequence read from str(ro) with plain ElementTree; "
    "conservation of the ID multiset for MOVE/SWAP on every input.  Non-trivial = story-level "
    "message whose references resolve, on a running order with >= 2 stories; distinct = distinct "
    "(running order text, message text) digests."
    " Also: the story-level enumeration behind 270 filler stories (child indices > 256); layouts with an anonymous story (empty storyID) and with look-alike 'twin' IDs / a foreign-namespace <story> ahead of the real one; the same source named twice in a move; unreferenced replaces carrying an existing ID; in histories half of the steps go through msg.merge(ro) instead of ro += msg; half of the shards run with DEBUG logging enabled; one message in twelve is addressed to another roID."
    " Round 11: history steps re-using an earlier messageID; directed three-step 'returning element' histories (insert / take away by each of 10 kinds / bring back by each of 9), with and without a shared messageID.")
ASSUMPTIONS = [
    'story IDs unique within the running order (precondition of C01); carried stories get fresh IDs '
    'except same-ID replacement and the duplicate-insert cases',
    'repeated IDs inside one message and target-in-sources are judged for conservation only',
    'blank target for roStoryInsert / roElementAction MOVE (empty storyID): error or "end" accepted',
]
MANDATORY = [
    'StoryMove:forward-move', 'StoryMove:backward-move', 'StoryMove:target=end',
    'EAStoryMove:forward-move', 'EAStoryMove:multi-source', 'EAStoryMove:sources-both-sides',
    'EAStoryMove:target=end', 'EAStorySwap:swap-first-operand-later', 'EAStorySwap:swap-adjacent',
    'StorySend:resend-kth', 'EAStoryDelete:multi-id-delete', 'StoryDelete:multi-id-delete',
    'StoryReplace:multi-story-replace', 'EAStoryReplace:multi-story-replace',
    'StoryInsert:multi-story-insert', 'EAStoryInsert:multi-story-insert', 'EAStoryInsert:target=end',
]


def judge(ev):
    return step.judge_order(PROP, 'story', ev.obs, ev.ex, ev.msg, ev.state)


def record(col, ev):
    m, ex = ev.msg, ev.ex
    if m.level != 'story':
        col.record(ev.case, False, [f'other-level:{m.level}'], [], key=0)
        return
    fails = judge(ev)
    nontrivial = ex.resolves and not ex.degenerate and len(ev.state) >= 2
    classes = [f'{m.kind}:{c}' for c in ex.classes] or [f'{m.kind}:plain']
    if ex.degenerate:
        classes.append(f'{m.kind}:degenerate(conservation-only)')
    elif not ex.resolves:
        classes.append(f'{m.kind}:unresolved(conservation-only)')
    col.record(ev.case, nontrivial, classes, fails, key=drive.ev_key(ev))


def rejudge(case):
    if 'history' in case:
        from vlib import history
        return history.rejudge_history(case, MOD)
    return judge(drive.eval_step(case))


def run(tier, seed, procs):
    quick = tier == 'quick'
    N, K = (4, 3) if quick else (7, 4)
    tasks = [(MOD, n, lay, K) for n in range(0, N + 1) for lay in gen.LAYOUTS]
    cols = drive.pool_map(drive.shard_enum_story, tasks, procs)
    cols += drive.pool_map(drive.shard_enum_story_big, [(MOD, 3, 270, 2 if quick else 3)], 1)
    kw = dict(allow_no_slug=True, kinds=gen.STORY_KINDS, faults='some', rich=True, degenerate=True)
    shards, per = (8, 400) if quick else (16, 12000)
    cols += drive.pool_map(drive.shard_hyp_steps,
                           [(MOD, per, seed * 1000 + i, kw) for i in range(shards)], procs)
    from vlib import history
    hs, runs, steps = (8, 30, 20) if quick else (16, 800, 50)
    cols += drive.pool_map(history.shard_history,
                           [(MOD, runs, steps, seed * 1000 + 500 + i, {}) for i in range(hs)], procs)
    cols += drive.pool_map(drive.shard_enum_stale, [(MOD, 'story', i, 2 if quick else 3) for i in range(11)], procs)
    cols += drive.pool_map(history.shard_returning, [MOD], 1)
    return drive.merge_all(PROP, cols)
