"""C14 - every reachable running order serialises to XML that reads back identically."""
import warnings
from xml.etree import ElementTree as ET

from vlib import env, drive, gen, history, build, model, xmlcmp
from vlib.xmlcmp import canon
from vlib.step import Failure

from mosromgr.mostypes import MosFile, RunningOrder

PROP = 'C14'
MOD = 'checks.c14'
RULE = (
    "Cases: Hypothesis rule-based histories over ALL 25 merging kinds (incl. roReplace, "
    "roMetadataReplace, roStorySend and, last, roDelete) from rich roCreates whose text, tails and "
    "attributes hold non-ASCII and markup-significant characters, envelope children in varied order; "
    "plus Hypothesis single steps.  Oracle, at every state reached: s = str(ro) parses; "
    "MosFile.from_string(s) is exactly a RunningOrder; its str() == s; same story/item ID sequences "
    "and completed flag - read both from the XML and through the library's accessors (stories, items, "
    "slugs, ro_slug, ro_id, message_id, script) on the in-memory object and on the object read back; ro.xml and the re-parsed tree are canon-equal (text, tails, attributes); the "
    "root has exactly one roCreate child and at most one mosromgrmeta child; message_id equals the "
    "roCreate's original one and ro_id the original one (messages are addressed to this running "
    "order); the <mos> attributes and header elements are the roCreate document's own; bytes round trip (utf-8) gives the same.  Non-trivial = the state is the result of >= 1 "
    "effective merge and holds non-ASCII or markup-significant text."
    ' Round 11: a quarter of the history shards also offer messages addressed to other running orders (refused or not; the original-roID invariant is judged only while every message was addressed to the running order); history steps re-using an earlier messageID.')
ASSUMPTIONS = ['text is XML-1.0-legal without CR (a literal CR is normalised by every XML parser)']
MANDATORY = ['after:RunningOrderReplace', 'after:MetaDataReplace', 'after:StorySend',
             'after:RunningOrderEnd', 'special-chars', 'depth>=5']


def _envelope(root):
    """The envelope apart from the body and the completion record; the message ID as a number."""
    def mid(c):
        try:
            return int(c.text)
        except (TypeError, ValueError):
            return c.text
    return (tuple(sorted(root.attrib.items())),
            tuple((c.tag, mid(c)) if c.tag == 'messageID' else canon(c)
                  for c in root if c.tag not in ('roCreate', 'mosromgrmeta')))


def check_state(ro, orig_mid, orig_ro_id, where, orig_env=None):
    fails = []

    def fail(mode, detail, exp=None, got=None):
        fails.append(Failure(PROP, f'C14|{where}|{mode}', detail, exp, got))
    s = str(ro)
    try:
        root = ET.fromstring(s)
    except ET.ParseError as e:
        fail('not-well-formed', f'str(ro) does not parse: {e}')
        return fails
    try:
        with warnings.catch_warnings():
            warnings.simplefilter('ignore')
            rt = MosFile.from_string(s)
            rtb = MosFile.from_string(s.encode('utf-8'))
    except Exception as e:
        fail('not-readable', f'MosFile.from_string(str(ro)) raised {type(e).__name__}: {e}')
        return fails
    if type(rt) is not RunningOrder:
        fail('reads-back-as-other-class', f'reads back as {type(rt).__name__}')
        return fails
    if str(rt) != s:
        fail('roundtrip-text-differs', 'str(from_string(str(ro))) != str(ro)', s, str(rt))
    if str(rtb) != s:
        fail('bytes-roundtrip-text-differs', 'bytes round trip differs', s, str(rtb))
    if canon(ro.xml) != canon(rt.xml):
        fail('tree-differs-after-roundtrip', xmlcmp.first_diff(canon(ro.xml), canon(rt.xml)))
    if xmlcmp.state_of(ro.xml) != xmlcmp.state_of(rt.xml) or ro.completed != rt.completed:
        fail('state-differs-after-roundtrip', 'stories/items/completed differ')
    # the same through the library's own eyes: the object in memory and the object
    # read back must present the same running order
    va, vb = _view(ro), _view(rt)
    if va != vb:
        fail('accessor-view-differs-after-roundtrip',
             f'in memory: {va}; read back: {vb}', vb, va)
    n_rc = len([c for c in root if c.tag == 'roCreate'])
    n_meta = len([c for c in root if c.tag == 'mosromgrmeta'])
    if n_rc != 1:
        fail('roCreate-count', f'{n_rc} roCreate children of the root', 1, n_rc)
    if n_meta > 1:
        fail('completion-record-count', f'{n_meta} mosromgrmeta children', '<=1', n_meta)
    if orig_env is not None and _envelope(root) != orig_env:
        fail('envelope-not-the-original', 'attributes of <mos> / header elements differ from the '
             "roCreate document's", orig_env, _envelope(root))
    try:
        if ro.message_id != orig_mid:
            fail('message-id-changed', f'message_id {ro.message_id} != original {orig_mid}', orig_mid, ro.message_id)
        if orig_ro_id is not None and ro.ro_id != orig_ro_id:
            fail('ro-id-changed', f'ro_id {ro.ro_id!r} != original {orig_ro_id!r}', orig_ro_id, ro.ro_id)
    except Exception as e:
        fail('envelope-accessor-raised', f'{type(e).__name__}: {e}')
    return fails


def _view(ro):
    def get(fn):
        try:
            with warnings.catch_warnings():
                warnings.simplefilter('ignore')
                return fn()
        except Exception as e:
            return f'EXC {type(e).__name__}'
    return {
        'stories': get(lambda: [(s.id, s.slug, [i.id for i in s.items]) for s in ro.stories]),
        'ro_slug': get(lambda: ro.ro_slug), 'ro_id': get(lambda: ro.ro_id),
        'message_id': get(lambda: ro.message_id), 'completed': get(lambda: ro.completed),
        'base_tag': get(lambda: ro.base_tag.tag), 'script': get(lambda: ro.script),
    }


def _special(s):
    return any(ord(ch) > 127 for ch in s) or '&amp;' in s or '&lt;' in s or '&quot;' in s


def judge(ev):
    """Judge the state reached after the step of ev (history or single step)."""
    if ev.obs.ro is None:
        return []
    if ev.obs.exc is None and ev.obs.returned not in (None, 'the running order'):
        # `ro += msg` rebinds the name: what comes back must be the running order itself
        return [Failure(PROP, f'C14|{ev.obs.cls_name}|merge-hands-back-{ev.obs.returned}',
                        f'`ro += {ev.obs.cls_name}` / msg.merge(ro) handed back {ev.obs.returned} instead of the '
                        'running order: the caller is left without a running order to serialise',
                        'the running order', ev.obs.returned)] + _judge_state(ev)
    return _judge_state(ev)


def _judge_state(ev):
    hist = ev.case.get('history')
    first = hist[0] if hist else ev.case['ro_xml']
    r0 = ET.fromstring(first)
    orig_ro_id = r0.find('roCreate').find('roID').text
    # the original roID is promised "for messages addressed to that running order": once a message
    # addressed to another one has been offered, only the other invariants are judged
    for text in (hist[1:] if hist else [ev.case['msg_xml']]):
        try:
            b = model.Msg(text).base
        except Exception:
            b = None
        if b is None or b.findtext('roID') != orig_ro_id:
            orig_ro_id = None
            break
    return check_state(ev.obs.ro, int(r0.find('messageID').text), orig_ro_id,
                       ev.obs.cls_name or 'unknown', orig_env=_envelope(r0))


def record(col, ev):
    fails = judge(ev)
    classes = [f'after:{ev.obs.cls_name}']
    s = ev.obs.after or ''
    sp = _special(s)
    if sp:
        classes.append('special-chars')
    depth = len(ev.case.get('history', [])) - 1
    if depth >= 5:
        classes.append('depth>=5')
    changed = ev.obs.after != ev.obs.before
    col.record(ev.case, changed and sp, classes, fails, key=drive.ev_key(ev))


def rejudge(case):
    if 'history' in case:
        return history.rejudge_history(case, MOD)
    return judge(drive.eval_step(case))


SHRINK_FIELDS = ['ro_xml', 'msg_xml']


def run(tier, seed, procs):
    quick = tier == 'quick'
    kinds = list(build.ALL_KINDS)       # roDelete included: it ends a history
    hs, runs, steps = (8, 30, 20) if quick else (16, 800, 50)
    cols = drive.pool_map(history.shard_history,
                          [(MOD, runs, steps, seed * 1000 + 500 + i,
                            {'kinds': kinds + ['roReplace', 'roMetadataReplace', 'roStorySend'],
                             'faults': 'some', 'foreign_ro': i % 4 == 3}) for i in range(hs)], procs)
    # (in three shards of four every message is addressed to this running order: C14 speaks of the original
    # roID for those; in the fourth, messages for other running orders are offered too, refused or not, and
    # everything but the roID is judged from then on)
    kw = dict(kinds=kinds, faults='some', rich=True, foreign_ro=False)
    shards, per = (8, 250) if quick else (16, 10000)
    cols += drive.pool_map(drive.shard_hyp_steps,
                           [(MOD, per, seed * 1000 + i, kw) for i in range(shards)], procs)
    return drive.merge_all(PROP, cols)
