"""C20 - message objects expose exactly the targets and sources the message names."""
import contextlib
import io
import warnings
from xml.etree import ElementTree as ET

from hypothesis import strategies as st

from vlib import env, drive, gen, build as B, model, xmlcmp
from vlib.xmlcmp import canon
from vlib.findings import Collector, h64
from vlib.step import Failure, innermost_site

from mosromgr.mostypes import MosFile

PROP = 'C20'
MOD = 'checks.c20'
SHRINK_FIELDS = ['msg_xml']
RULE = (
    "Cases: (a) exhaustive - every one of the 26 message classes x n in 1..4 non-blank sources / "
    "carried elements x target shape in {present, blank, absent where the schema allows} x {compact, "
    "pretty-printed}; (b) Hypothesis messages of all kinds drawn against random states (odd IDs: "
    "prefixes of each other, markup-significant, Unicode).  Oracle: IDs read from the message TEXT by "
    "the harness (vlib/model.Msg); message_id, ro_id, base_tag, dict (and ro_slug / stories of roReplace, "
    "roMetadataReplace, roCreate) agree with the text; every story/stories/item/items/source_*/target_* accessor yields "
    "exactly those IDs in message order; a blank or absent target is None or an object whose id is "
    "None - never another ID; carried stories/items are canon-equal to the message text (roStorySend: "
    "to the independently converted story); inspect() prints without raising and its output mentions "
    "every source ID; repr() does not raise; the exposed view is the same when read twice, after "
    "inspect(), and after the message was merged into a running order whose stories are then edited "
    "(items deleted inside every story).  Non-trivial = >= 2 sources/carried elements, or a blank "
    "target, or compact XML."
    ' Also: the FIRST read of StorySend.story on a fresh object is compared with the text, and reading accessors / inspect() must leave str(message) unchanged; IDs in CDATA sections; a str carrying a foreign encoding declaration.'
    ' Round 11: the roCreate text of the running order a message was merged into is read again afterwards (generic and class entry points in turn) and must expose what the text names.')
ASSUMPTIONS = ['source IDs are non-blank (a blank *source* names nothing; only blank targets are in the stated domain)']
MANDATORY = ['cdata', 'multi-source', 'repeated-source-id', 'blank-target', 'compact', 'pretty', 'inspect'] + \
    [f'class:{k}' for k in sorted(set(B.TAG_CLASS.values()) | set(B.EA_KINDS))]

# class -> (accessor yielding the addressed story, target accessor, sources accessor, payload accessor)
ACCESS = {
    'StorySend': dict(story='story'),
    'StoryAppend': dict(payload='stories'),
    'StoryDelete': dict(sources='stories'),
    'StoryInsert': dict(target='target_story', payload='source_stories'),
    'StoryMove': dict(sources='source_story', target='target_story'),
    'StoryReplace': dict(target='story', payload='stories'),
    'ItemDelete': dict(story='story', sources='items'),
    'ItemInsert': dict(story='story', target='item', payload='items'),
    'ItemMoveMultiple': dict(story='story', target='item', sources='items'),
    'ItemReplace': dict(story='story', target='item', payload='items'),
    'EAStoryReplace': dict(target='story', payload='stories'),
    'EAItemReplace': dict(story='story', target='item', payload='items'),
    'EAStoryDelete': dict(sources='stories'),
    'EAItemDelete': dict(story='story', sources='items'),
    'EAStoryInsert': dict(target='story', payload='stories'),
    'EAItemInsert': dict(story='story', target='item', payload='items'),
    'EAStorySwap': dict(sources='stories'),
    'EAItemSwap': dict(story='story', sources='items'),
    'EAStoryMove': dict(target='story', sources='stories'),
    'EAItemMove': dict(story='story', target='item', sources='items'),
}


def _ids(v):
    if v is None:
        return []
    if isinstance(v, (list, tuple)):
        return [x.id for x in v]
    return [v.id]


def msg_view(mo):
    """Everything the message object exposes about what it names, through its accessors:
    {accessor: [(id, canon of the wrapped element) ...]}.  Used to check that the exposed
    view is stable (read twice, after inspect(), after merges and later edits - C13)."""
    kind = type(mo).__name__
    out = {}
    with warnings.catch_warnings():
        warnings.simplefilter('ignore')
        for role, name in sorted(ACCESS.get(kind, {}).items()):
            try:
                v = getattr(mo, name)
            except Exception as e:
                out[name] = f'EXC {type(e).__name__}'
                continue
            objs = [] if v is None else (list(v) if isinstance(v, (list, tuple)) else [v])
            if role == 'payload' or (kind == 'StorySend' and role == 'story'):
                out[name] = [(o.id, canon(o.xml)) for o in objs]
            else:
                out[name] = [o.id for o in objs]
            if kind == 'StorySend' and role == 'story' and objs:
                try:
                    out['story.items'] = [i.id for i in objs[0].items]
                except Exception as e:
                    out['story.items'] = f'EXC {type(e).__name__}'
    return out


def _merge_and_edit(mo, m):
    """Merge `mo` into a running order built to contain what it references, then delete
    one item inside every story of that running order (roItemDelete) - twice."""
    from mosromgr.mostypes import RunningOrder
    ids = []
    for r in [m.story_ref, m.target if m.level == 'story' else None] + (list(m.sources) if m.level == 'story' else []):
        if r is not None and r[0] == 'id' and r[1] not in ids:
            ids.append(r[1])
    item_ids = []
    if m.level == 'item':
        for r in [m.target] + list(m.sources):
            if r is not None and r[0] == 'id' and r[1] not in item_ids:
                item_ids.append(r[1])
    for extra in ('X0', 'X1'):
        if extra not in ids:
            ids.append(extra)
    stories = [gen.plain_story(sid, item_ids + ['K0', 'K1']) for sid in ids]
    ro_id = m.base.findtext('roID') or 'RO1'
    ro_text = B.tostring(B.envelope(B.ro_create(ro_id, stories), 1))
    named = [(sid, item_ids + ['K0', 'K1']) for sid in ids]
    try:
        # read through the generic entry point or the class's own, in turn
        ro = (MosFile if h64(ro_text) % 2 else RunningOrder).from_string(ro_text)
        try:
            ro += mo
        except Exception:
            pass
        for _round in range(2):
            for st_ in list(ro.xml.find('roCreate').findall('story')):
                its = [i.findtext('itemID') for i in st_.findall('item')]
                if its and st_.findtext('storyID') is not None:
                    try:
                        ro += MosFile.from_string(B.tostring(B.envelope(
                            B.item_delete(ro_id, st_.findtext('storyID'), [its[0]]), 2)))
                    except Exception:
                        pass
    except Exception:
        pass
    # the roCreate text read again (after an object read from the same text was merged into and
    # edited) exposes the stories and items the TEXT names
    try:
        with warnings.catch_warnings():
            warnings.simplefilter('ignore')
            again = MosFile.from_string(ro_text)
            got = [(s_.id, [i.id for i in s_.items]) for s_ in again.stories]
    except Exception as e:
        got = f'EXC {type(e).__name__}'
    return None if got == named else (named, got)


def access_ok(story):
    return story.find('storyID') is not None


def judge_msg(case):
    text = case['msg_xml']
    m = model.Msg(text)
    fails = []

    def fail(mode, detail, exp=None, got=None):
        fails.append(Failure(PROP, f'C20|{m.kind}|{mode}', f'{m.kind}: {detail}', exp, got))
    with warnings.catch_warnings():
        warnings.simplefilter('ignore')
        try:
            mo = MosFile.from_string(text)
        except Exception as e:
            if m.kind is None:
                return []       # no recognised message in the text: nothing to expose (C08's business)
            return [Failure(PROP, f'C20|classify|{type(e).__name__}', f'classification raised {type(e).__name__}')]
        if type(mo).__name__ != m.kind:
            return []           # C08's business
        s0 = str(mo)

        def get(name):
            try:
                return True, getattr(mo, name)
            except Exception as e:
                fail(f'{name}|raised-{type(e).__name__}',
                     f'.{name} raised {type(e).__name__} at {innermost_site(e.__traceback__)}: {e}')
                return False, None
        # envelope-level accessors every message has
        root = ET.fromstring(text)
        for name, exp in (('message_id', int(root.findtext('messageID').strip()) if (root.findtext('messageID') or '').strip().lstrip('+-').isdigit() else None),
                          ('ro_id', m.base.findtext('roID') if m.base is not None and m.base.find('roID') is not None else None)):
            if exp is None:
                continue
            ok, v = get(name)
            if ok and v != exp:
                fail(f'{name}|wrong-value', f'.{name} is {v!r}, the message says {exp!r}', exp, v)
        ok, bt = get('base_tag')
        if ok and (bt is None or bt.tag != m.base.tag):
            fail('base_tag|wrong-element', f'.base_tag is {getattr(bt, "tag", None)!r}, the message element is {m.base.tag!r}')
        get('dict')
        if m.kind in ('MetaDataReplace', 'RunningOrderReplace', 'RunningOrder') and m.base.find('roSlug') is not None:
            ok, v = get('ro_slug')
            if ok and v != m.base.findtext('roSlug') and not (v is None and not m.base.findtext('roSlug')):
                fail('ro_slug|wrong-value', f'.ro_slug is {v!r}, the message says {m.base.findtext("roSlug")!r}')
        if m.kind in ('RunningOrderReplace', 'RunningOrder'):
            exp_ids = [xmlcmp.story_id(x) for x in m.base.findall('story')]
            if all(access_ok(x) for x in m.base.findall('story')):
                ok, v = get('stories')
                if ok and [x.id for x in v] != exp_ids:
                    fail('stories|wrong-ids', f'.stories exposes {[x.id for x in v]}, the message carries {exp_ids}', exp_ids,
                         [x.id for x in v])
        acc = ACCESS.get(m.kind, {})
        if m.kind == 'StorySend' and m.payload:
            # the very FIRST read of .story on a fresh object: content and items as sent
            ok, v = get('story')
            if ok and v is not None:
                if canon(v.xml) != canon(m.payload[0]):
                    fail('story|content-differs', 'first read: ' + str(xmlcmp.first_diff(canon(m.payload[0]), canon(v.xml))))
                exp = [xmlcmp.item_id(i) for i in m.payload[0] if i.tag == 'item']
                try:
                    got = [i.id for i in v.items]
                    if got != exp:
                        fail('story.items|wrong-ids', f'first read: story.items exposes {got}, body carries {exp}', exp, got)
                except Exception as e:
                    fail(f'story.items|raised-{type(e).__name__}', str(e))
        if 'story' in acc:
            ok, v = get(acc['story'])
            if ok:
                exp = m.story_ref[1] if m.story_ref[0] == 'id' else None
                got = None if v is None else v.id
                if got != exp:
                    fail(f'{acc["story"]}|wrong-id', f'.{acc["story"]}.id is {got!r}, message names {exp!r}', exp, got)
        if 'target' in acc:
            ok, v = get(acc['target'])
            if ok:
                exp = m.target[1] if m.target[0] == 'id' else None
                got = None if v is None else v.id
                if got != exp:
                    mode = 'blank-target-reported-as-id' if exp is None else 'wrong-id'
                    fail(f'{acc["target"]}|{mode}', f'.{acc["target"]} reports {got!r}, message names '
                         f'{exp!r} ({m.target[0]})', exp, got)
        if 'sources' in acc:
            ok, v = get(acc['sources'])
            if ok and all(t == 'id' for t, _ in m.sources):
                exp = m.source_ids()
                got = _ids(v)
                if got != exp:
                    fail(f'{acc["sources"]}|wrong-ids', f'.{acc["sources"]} exposes {got}, message names {exp}', exp, got)
        if 'payload' in acc:
            ok, v = get(acc['payload'])
            if ok:
                exp = m.payload_ids()
                got = _ids(v)
                if got != exp:
                    fail(f'{acc["payload"]}|wrong-ids', f'.{acc["payload"]} exposes {got}, message carries {exp}', exp, got)
                else:
                    for obj, el in zip(v, m.payload):
                        if canon(obj.xml) != canon(el):
                            fail(f'{acc["payload"]}|content-differs', xmlcmp.first_diff(canon(el), canon(obj.xml)))
                            break
        if m.kind == 'StorySend' and m.payload:
            ok, v = get('story')
            if ok and v is not None and canon(v.xml) != canon(m.payload[0]):
                fail('story|content-differs', xmlcmp.first_diff(canon(m.payload[0]), canon(v.xml)))
            if ok and v is not None:
                exp = [xmlcmp.item_id(i) for i in m.payload[0] if i.tag == 'item']
                try:
                    got = [i.id for i in v.items]
                    if got != exp:
                        fail('story.items|wrong-ids', f'story.items exposes {got}, body carries {exp}', exp, got)
                except Exception as e:
                    fail(f'story.items|raised-{type(e).__name__}', str(e))
        # the exposed view is stable: reading it again, and reading it after inspect()
        view1 = msg_view(mo)
        if msg_view(mo) != view1:
            fail('accessors|unstable-on-second-read', 'accessors give a different view when read twice')
        # inspect() and repr()
        buf = io.StringIO()
        try:
            with contextlib.redirect_stdout(buf):
                mo.inspect()
            out = buf.getvalue()
            named = m.source_ids() + [p for p in m.payload_ids() if p] if m.level in ('story', 'item') else []
            missing = [i for i in named if i not in out]
            if missing:
                fail('inspect|source-not-mentioned', f'inspect() output does not mention {missing}: {out!r}', named, out)
        except Exception as e:
            fail(f'inspect|raised-{type(e).__name__}',
                 f'inspect() raised {type(e).__name__} at {innermost_site(e.__traceback__)}: {e}')
        try:
            repr(mo)
        except Exception as e:
            fail(f'repr|raised-{type(e).__name__}', str(e))
        if str(mo) != s0:
            fail('accessors|message-modified-by-reading', 'reading the accessors / inspect() changed str(message)', s0, str(mo))
        if msg_view(mo) != view1:
            fail('accessors|changed-by-inspect', 'accessors give a different view after inspect() / repr()')
        # ... and after the message was merged and the running order edited further: the
        # object must keep exposing what the message names
        if m.level in ('story', 'item') and not fails:
            reread = _merge_and_edit(mo, m)
            if reread is not None:
                fail('roCreate-read-again|exposes-other-content',
                     'a roCreate text read again - after an object read from the same text was merged into - exposes '
                     'other stories / items than the text names', reread[0], reread[1])
            if msg_view(mo) != view1:
                fail('accessors|changed-by-merge-and-later-edit',
                     'after merging the message and deleting items inside the stories it carries/addresses, '
                     'its accessors expose different content', view1, msg_view(mo))
    return fails


def rejudge(case):
    return judge_msg(case)


def classes_of(text):
    m = model.Msg(text)
    cl = [f'class:{m.kind}', 'inspect']
    if len(set(m.source_ids())) != len(m.source_ids()):
        cl.append('repeated-source-id')
    n = len(m.sources) + len(m.payload)
    if n >= 2:
        cl.append('multi-source')
    blank = m.target is not None and m.target[0] != 'id'
    if blank:
        cl.append('blank-target')
    compact = '>\n' not in text
    cl.append('compact' if compact else 'pretty')
    return cl, (n >= 2 or blank or compact)


def enum_messages():
    sids = ['S0', 'STORY1', 'STORY10', 'a&b']
    iids = ['I0', 'ITEM1', 'ITEM10', 'i<1']
    ro = 'RO1'

    def stories(n):
        return [gen.plain_story(f'N{i}', [f'J{i}']) for i in range(n)]

    def items(n):
        return [B.mk_item(f'J{i}', slug=f's{i}') for i in range(n)]
    for n in range(1, 5):
        yield B.story_append(ro, stories(n))
        yield B.story_delete(ro, sids[:n])
        yield B.ea_story_delete(ro, sids[:n])
        yield B.item_delete(ro, 'S0', iids[:n])
        yield B.ea_item_delete(ro, 'S0', iids[:n])
        for t in ('S0', ''):
            yield B.story_insert(ro, t, stories(n))
            yield B.story_replace(ro, t, stories(n))
            yield B.ea_story_replace(ro, t, stories(n))
            yield B.ea_story_insert(ro, t, stories(n))
            yield B.item_insert(ro, 'S0', 'I0' if t else '', items(n))
            yield B.ea_item_insert(ro, 'S0', 'I0' if t else '', items(n))
            yield B.item_replace(ro, 'S0', 'I0' if t else '', items(n))
            yield B.ea_item_replace(ro, 'S0', 'I0' if t else '', items(n))
            yield B.ea_story_move(ro, t, sids[1:1 + n] or ['S1'])
            yield B.ea_item_move(ro, 'S0', 'I0' if t else '', iids[1:1 + n] or ['I1'])
            yield B.item_move_multiple(ro, 'S0', (iids[1:1 + n] or ['I1']) + ['I0' if t else ''])
        yield B.ea_story_insert(ro, None, stories(n), with_target=False)
        yield B.ea_story_move(ro, None, sids[:n], with_target=False)
    # the same ID named twice: accessors expose what the message names, as it names it
    yield B.story_delete(ro, ['S0', 'STORY1', 'S0'])
    yield B.ea_story_delete(ro, ['S0', 'S0'])
    yield B.item_delete(ro, 'S0', ['I0', 'ITEM1', 'I0'])
    yield B.ea_item_delete(ro, 'S0', ['I0', 'I0', 'ITEM1'])
    yield B.ea_story_move(ro, 'a&b', ['S0', 'STORY1', 'S0'])
    for t in ('S1', ''):
        yield B.story_move(ro, ['S0', t])
    yield B.story_move(ro, ['S0'])
    yield B.ea_story_swap(ro, 'S0', 'STORY10')
    yield B.ea_story_swap(ro, 'S0', 'STORY10', target='empty')
    yield B.ea_item_swap(ro, 'S0', 'I0', 'ITEM10')
    for nb in range(0, 4):
        body = []
        for i in range(nb):
            body.append(B.P(f'p{i}'))
            it = B.mk_item(f'J{i}', slug='x')
            it.tag = 'storyItem'
            body.append(it)
        yield B.story_send(ro, 'S0', head=[B.T('storySlug', 'x')], body=body)
    yield B.metadata_replace(ro, [B.T('roChannel', 'c'), B.T('roEdStart', None)])
    yield B.ro_replace(ro, stories(2))
    yield B.ro_replace(ro, stories(1), ed_start='')
    yield B.ready_to_air(ro)
    yield B.ro_delete(ro)
    yield B.ro_create(ro, stories(2))


def shard_enum(args):
    col = Collector(PROP)
    for body in enum_messages():
        root = B.envelope(body, 4000)
        for pretty in (False, True):
            text = B.tostring(root, pretty=pretty)
            case = {'msg_xml': text}
            cl, nt = classes_of(text)
            col.record(case, nt, cl, judge_msg(case), key=h64(text))
            if not pretty:
                # the same message with IDs that need escaping, written escaped and as CDATA
                amp = text.replace('<storyID>S', '<storyID>P&amp;L/S').replace('<itemID>I', '<itemID>a &amp; b&lt;I')
                for t2 in (amp, B.cdataize(amp)):
                    case = {'msg_xml': t2}
                    cl, nt = classes_of(t2)
                    col.record(case, nt, cl + (['cdata'] if 'CDATA' in t2 else []), judge_msg(case), key=h64(t2))
    col.scopes.append('message accessors: 26 classes x 1..4 sources/carried elements x target present/blank/absent x compact/pretty')
    return col


def shard_hyp(args):
    n, seed = args
    col = Collector(PROP)

    @st.composite
    def msgs(draw):
        ro = draw(gen.running_order(min_stories=1, max_stories=5, rich=False))
        state = xmlcmp.state_of(ET.fromstring(ro['ro_xml']))
        _k, text = draw(gen.message(state, ro['ro_id'], faults='none', rich=True))
        if draw(st.integers(0, 3)) == 0:
            text = B.cdataize(text, every=draw(st.integers(1, 2)))      # IDs / slugs in CDATA sections
        if draw(st.integers(0, 4)) == 0:
            # a str that still carries the declaration of the encoding it was decoded from
            text = '<?xml version="1.0" encoding="%s"?>' % draw(st.sampled_from(['ISO-8859-1', 'UTF-16', 'windows-1252'])) + text
        return {'msg_xml': text}

    def one(case):
        cl, nt = classes_of(case['msg_xml'])
        col.record(case, nt, cl, judge_msg(case), key=h64(case['msg_xml']))
    drive.run_given(msgs(), one, n, seed)
    return col


def run(tier, seed, procs):
    quick = tier == 'quick'
    cols = drive.pool_map(shard_enum, [None], 1)
    shards, per = (8, 400) if quick else (16, 15000)
    cols += drive.pool_map(shard_hyp, [(per, seed * 1000 + i) for i in range(shards)], procs)
    return drive.merge_all(PROP, cols)
