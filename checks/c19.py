"""C19 - the command line reports and writes exactly what the library computes."""
import contextlib
import io
import os
import shutil
import subprocess
import sys
import warnings
from xml.etree import ElementTree as ET

from hypothesis import strategies as st

from vlib import env, drive, gen, colgen, build as B, xmlcmp, findings
from vlib.findings import Collector, h64
from vlib.step import Failure, innermost_site

from mosromgr.exc import MosRoMgrException
from mosromgr.moscollection import MosCollection
from mosromgr.mostypes import MosFile, RunningOrder
import mosromgr.cli as cli        # NB: sets a global 'ignore' warnings filter at import

PROP = 'C19'
MOD = 'checks.c19'
RULE = (
    "Cases: Hypothesis file sets in a directory created (and removed) by the check: valid messages of "
    "every kind, roCreates, completed running orders (serialised after a roDelete), non-XML files, "
    "well-formed XML of unknown type, missing paths, directories, paths below a regular file (ENOTDIR) and over-long names (ENAMETOOLONG), sometimes named relative to the current directory ('~backup.mos.xml', '.hidden'), listed in a drawn order for "
    "`detect` and `inspect`; for `merge`: valid collections, invalid ones (second roCreate, missing "
    "roDelete, non-XML member), collections whose strict merge fails and collections whose roCreate "
    "file is an already completed running order (the output of an earlier merge), x {-o file, stdout} x -i x "
    "-n; the same commands with -b/-p/-s against a fake S3 bucket (several result pages, foreign keys).  The CLI is called in-process as mosromgr.cli.main(argv) with stdout/stderr captured and "
    "SystemExit recorded; the thorough tier re-runs a sample in real subprocesses for the process "
    "exit status.  Oracle: detect prints, for every classifiable file in argument order, the line "
    "'<path>: <Class>' (+ ' (completed)'), class computed with MosFile.from_file; every invalid or "
    "unreadable file is named on stderr and absent from stdout and never stops later files; inspect "
    "prints the same header followed by exactly what the object's inspect() prints; merge writes "
    "exactly str(mc) of MosCollection.from_files(files, allow_incomplete=-i).merge(strict=not -n) to "
    "stdout or to the -o file and returns 0/None, and returns 2 with a non-empty stderr on any error. "
    "Non-trivial = >= 3 files with a bad/unreadable one that is not last, or a non-default option."
    " Also: files in declared ISO-8859-1 / UTF-16, undecodable declared encodings, members with a blank / non-numeric messageID, file names with shell metacharacters (and matching siblings), names starting with '@', '+', '#', '~', '.', relative paths, ENOTDIR / ENAMETOOLONG.")
ASSUMPTIONS = ['the S3 options (-b/-p/-s/-k) run against the fake S3 of C18',
               'inspect() output of the library is the reference for the inspect command (self-consistency)']
MANDATORY = ['non-utf8-files', 'other-OSError', 'relative-names', 'odd-file-names', 'file-listed-twice', 'detect', 'inspect', 'merge', 'detect:s3', 'inspect:s3', 'merge:s3', 'merge:shape:completed-create', 'bad-file-not-last', 'missing-path', 'directory', 'completed-ro',
             'merge:-o', 'merge:-o=input-file', 'merge:-i', 'merge:-n', 'merge:invalid-collection', 'merge:strict-failure',
             'merge:no-input']


def run_cli(argv):
    out, err = io.StringIO(), io.StringIO()
    status, exc = None, None
    with contextlib.redirect_stdout(out), contextlib.redirect_stderr(err):
        try:
            status = cli.main(argv)
        except SystemExit as e:
            status = e.code
        except BaseException as e:       # nothing may escape main()
            exc = e
    return out.getvalue(), err.getvalue(), status, exc


def materialise(case, root):
    """Write the case's files below root; -> list of argument paths."""
    os.makedirs(root, exist_ok=True)
    args = []
    names = case.get('names') or {}
    for i, (kind, content) in enumerate(case['files']):
        p = os.path.join(root, names.get(str(i)) or f'f{i:02d}.mos.xml')
        if kind == 'same-as-first' and args:
            args.append(args[0])
            continue
        if kind == 'missing':
            p = os.path.join(root, f'missing{i:02d}.mos.xml')
        elif kind == 'notdir':
            # a path below a regular file (ENOTDIR)
            base = os.path.join(root, f'plain{i:02d}.mos.xml')
            with open(base, 'w', encoding='utf-8') as f:
                f.write('<mos/>')
            p = os.path.join(base, 'x.mos.xml')
        elif kind == 'toolong':
            p = os.path.join(root, 'n' * 300 + '.mos.xml')          # ENAMETOOLONG
        elif kind == 'dir':
            p = os.path.join(root, f'dir{i:02d}')
            os.makedirs(p, exist_ok=True)
        else:
            enc = (case.get('encodings') or {}).get(str(i))
            raw = None
            if enc and kind == 'valid':
                from checks.c08 import encoded, encodable
                if encodable(content, enc):
                    raw = encoded(content, enc)       # declared ISO-8859-1 / UTF-16: a valid file
            with open(p, 'wb') as f:
                f.write(raw if raw is not None else content.encode('utf-8'))
            base = os.path.basename(p)
            if any(ch in base for ch in '[*?'):
                # a sibling that the name would match if it were read as a shell pattern (not listed)
                sib = base.replace('[', '').replace(']', '').replace('*', 'x').replace('?', 'l')
                with open(os.path.join(os.path.dirname(p), sib), 'w', encoding='utf-8') as f:
                    f.write('<mos><mosID>x</mosID><messageID>1</messageID><roReadyToAir><roID>sibling</roID>'
                            '<roAir>READY</roAir></roReadyToAir></mos>')
        args.append(p)
    if case.get('relative'):
        args = [os.path.relpath(a, root) for a in args]
    return args


def judge_listing(case, root):
    if case.get('relative') and not case.get('_in_cwd'):
        # file names relative to the current directory (e.g. '~backup.mos.xml')
        os.makedirs(root, exist_ok=True)
        old = os.getcwd()
        os.chdir(root)
        try:
            return judge_listing(dict(case, _in_cwd=True), root)
        finally:
            os.chdir(old)
    cmd = case['cmd']
    if not case['files']:
        return []        # no file named: usage handling is not part of the property
    paths = materialise(case, root)
    fails = []

    def fail(mode, detail, exp=None, got=None):
        fails.append(Failure(PROP, f'C19|{cmd}|{mode}', f'{cmd}: {detail}', exp, got))
    exp_out, bad = '', []
    with warnings.catch_warnings():
        warnings.simplefilter('ignore')
        for p in paths:
            try:
                mo = MosFile.from_file(p)
            except (MosRoMgrException, OSError):
                bad.append(p)
                continue
            exp_out += f'{p}: {type(mo).__name__}' + (' (completed)' if mo.completed else '') + '\n'
            if cmd == 'inspect':
                buf = io.StringIO()
                try:
                    with contextlib.redirect_stdout(buf):
                        mo.inspect()
                except Exception as e:
                    fail('library-inspect-raised', f'{type(mo).__name__}.inspect() raised {type(e).__name__}')
                exp_out += buf.getvalue() + '\n'
        out, err, status, exc = run_cli([cmd, '-f'] + paths)
    if exc is not None:
        fail(f'exception-escaped-{type(exc).__name__}', f'main() let {type(exc).__name__} escape')
        return fails
    if cmd == 'inspect':
        # the exact spacing of the outline is not part of the property: blank lines are ignored
        out = ''.join(l + '\n' for l in out.splitlines() if l.strip())
        exp_out = ''.join(l + '\n' for l in exp_out.splitlines() if l.strip())
    if out != exp_out:
        got_lines, exp_lines = out.splitlines(), exp_out.splitlines()
        missing = [l for l in exp_lines if l not in got_lines]
        if missing and len(got_lines) < len(exp_lines):
            kinds = sorted({k for k, _ in case['files'] if k in ('missing', 'dir', 'notdir', 'toolong', 'garbage', 'unknown')})
            fail('files-not-processed|' + ('after-unreadable' if set(kinds) & {'missing', 'dir', 'notdir', 'toolong'} else 'other'),
                 f'{len(missing)} expected lines are missing (status {status}); first: {missing[0]!r}; '
                 f'stderr: {err.strip()[-200:]!r}', exp_out, out)
        else:
            fail('stdout-differs', f'stdout differs from the library view; first difference: '
                 f'{next(((a, b) for a, b in zip(got_lines + [None], exp_lines + [None]) if a != b), None)}',
                 exp_out, out)
    for p in bad:
        if p not in err:
            fail('bad-file-not-reported', f'{p} is invalid/unreadable but stderr does not mention it: {err!r}')
        if any(line.startswith(p + ':') for line in out.splitlines()):
            fail('bad-file-on-stdout', f'{p} is invalid but appears on stdout')
    return fails


def judge_s3(case, root):
    """detect / inspect / merge over a fake S3 bucket (-b/-p/-s/-k options)."""
    from vlib import fakes3
    cmd = case['cmd']
    objs = {}
    for i, (kind, content) in enumerate(case['files']):
        if kind in ('missing', 'dir', 'notdir', 'toolong', 'same-as-first'):
            continue
        name = f"pre/k{i:02d}" + ('.mos.xml' if kind != 'other-suffix' else '.txt')
        objs[name] = (content or '').encode('utf-8')
    objs['elsewhere/zz.mos.xml'] = b'<mos/>'
    fake = fakes3.FakeS3({'bkt': objs}, page_size=case.get('page_size', 2))
    keys = sorted(k for k in objs if k.startswith('pre/') and k.endswith('.mos.xml'))
    fails = []

    def fail(mode, detail, exp=None, got=None):
        fails.append(Failure(PROP, f'C19|{cmd}-s3|{mode}', f'{cmd} (S3): {detail}', exp, got))
    opts = case.get('opts', {})
    with warnings.catch_warnings():
        warnings.simplefilter('ignore')
        with fake:
            if cmd in ('detect', 'inspect'):
                exp_out, bad = '', []
                for k in keys:
                    try:
                        mo = MosFile.from_s3('bkt', k)
                    except MosRoMgrException:
                        bad.append(k)
                        continue
                    exp_out += f'{k}: {type(mo).__name__}' + (' (completed)' if mo.completed else '') + '\n'
                    if cmd == 'inspect':
                        buf = io.StringIO()
                        try:
                            with contextlib.redirect_stdout(buf):
                                mo.inspect()
                        except Exception as e:
                            fail('library-inspect-raised', f'{type(mo).__name__}.inspect() raised {type(e).__name__}')
                        exp_out += buf.getvalue() + '\n'
                argv = [cmd, '-b', 'bkt', '-p', 'pre/'] + (['-s', '.mos.xml'] if opts.get('s') else [])
                out, err, status, exc = run_cli(argv)
                if cmd == 'inspect':
                    out = ''.join(l + '\n' for l in out.splitlines() if l.strip())
                    exp_out = ''.join(l + '\n' for l in exp_out.splitlines() if l.strip())
                if exc is not None:
                    fail(f'exception-escaped-{type(exc).__name__}', 'main() let an exception escape')
                elif out != exp_out:
                    fail('stdout-differs', f'stdout differs from the library view (status {status}, stderr {err[-200:]!r})',
                         exp_out, out)
                for k in bad:
                    if k not in err:
                        fail('bad-key-not-reported', f'{k} is invalid but stderr does not mention it')
                # a single key (-k)
                for k in keys[:2]:
                    out, err, status, exc = run_cli([cmd, '-b', 'bkt', '-k', k])
                    try:
                        mo = MosFile.from_s3('bkt', k)
                        line = f'{k}: {type(mo).__name__}' + (' (completed)' if mo.completed else '')
                        if exc is not None or line not in out.splitlines():
                            fail('single-key|stdout-differs', f'-k {k}: expected line {line!r}, stdout {out[:200]!r}')
                    except MosRoMgrException:
                        if exc is not None or k not in err or out.strip():
                            fail('single-key|bad-key-not-reported', f'-k {k}: invalid key not reported: {out!r} {err!r}')
                return fails
            exp, exp_err = None, None
            try:
                mc = MosCollection.from_s3(bucket_name='bkt', prefix='pre/', allow_incomplete=bool(opts.get('i')))
                mc.merge(strict=not opts.get('n'))
                exp = str(mc)
            except Exception as e:
                exp_err = type(e).__name__
            argv = ['merge', '-b', 'bkt', '-p', 'pre/'] + (['-s', '.mos.xml'] if opts.get('s') else [])
            argv += (['-i'] if opts.get('i') else []) + (['-n'] if opts.get('n') else [])
            out, err, status, exc = run_cli(argv)
    if exc is not None:
        fail(f'exception-escaped-{type(exc).__name__}', 'main() let an exception escape')
    elif exp_err is not None:
        if status != 2 or not err.strip():
            fail(f'error-but-status-{status}', f'library view is an error ({exp_err}); status {status!r}, stderr {err!r}')
    elif status not in (None, 0):
        fail(f'success-but-status-{status}', f'library merge succeeds, command returned {status!r}: {err!r}')
    elif out not in (exp + '\n', exp):
        fail('stdout-differs', 'stdout is not str(mc) of the library', exp, out)
    return fails


def judge_merge(case, root):
    paths = materialise(case, root)
    opts = case['opts']
    fails = []

    def fail(mode, detail, exp=None, got=None):
        fails.append(Failure(PROP, f'C19|merge|{mode}', f'merge {opts}: {detail}', exp, got))
    argv = ['merge']
    if paths:
        argv += ['-f'] + paths
    outfile = None
    if opts.get('o') == 'input' and paths:
        # the output path is one of the input files (re-running `merge -f *.xml -o merged.xml`)
        outfile = paths[opts.get('o_index', 0) % len(paths)]
        argv += ['-o', outfile]
    elif opts.get('o'):
        outfile = os.path.join(root, 'out', 'merged.xml')
        os.makedirs(os.path.dirname(outfile), exist_ok=True)
        argv += ['-o', outfile]
    if opts.get('i'):
        argv.append('-i')
    if opts.get('n'):
        argv.append('-n')
    # the library's view
    exp, exp_err = None, None
    with warnings.catch_warnings():
        warnings.simplefilter('ignore')
        if not paths:
            exp_err = 'no-input'
        else:
            try:
                mc = MosCollection.from_files(paths, allow_incomplete=bool(opts.get('i')))
                mc.merge(strict=not opts.get('n'))
                exp = str(mc)
            except Exception as e:
                exp_err = type(e).__name__
        out, err, status, exc = run_cli(argv)
    if exc is not None:
        fail(f'exception-escaped-{type(exc).__name__}', f'main() let {type(exc).__name__} escape')
        return fails
    if exp_err is not None:
        if status != 2:
            fail(f'error-but-status-{status}|{ "no-input" if exp_err == "no-input" else "library-error"}',
                 f'the library view is an error ({exp_err}) but the command returned {status!r}', 2, status)
        elif not err.strip():
            fail('error-without-message', f'status 2 but nothing on stderr ({exp_err})')
        if outfile and opts.get('o') != 'input' and os.path.exists(outfile) and exp_err != 'no-input':
            fail('output-written-on-error', 'an output file was written although the merge failed')
        return fails
    if status not in (None, 0):
        fail(f'success-but-status-{status}', f'library merge succeeds, command returned {status!r}; stderr {err!r}', 0, status)
        return fails
    if outfile:
        try:
            with open(outfile, encoding='utf-8') as f:
                got = f.read()
        except OSError:
            got = None
        if got != exp:
            fail('outfile-differs', 'the -o file does not hold str(mc) of the library', exp, got)
    else:
        if out not in (exp + '\n', exp):
            fail('stdout-differs', 'stdout is not str(mc) of the library', exp, out)
    return fails


def rejudge(case):
    if case.get('cmd') == 'subprocess':
        return [f for rec in shard_subprocess(None).failures.values()
                for f in [Failure(PROP, rec.get('sig', ''), rec['detail'])]]
    root = os.path.join(env.WORK_DIR, f'c19-{os.getpid()}')
    shutil.rmtree(root, ignore_errors=True)
    try:
        if case.get('via') == 's3':
            return judge_s3(case, root)
        if case['cmd'] == 'merge':
            return judge_merge(case, root)
        return judge_listing(case, root)
    finally:
        shutil.rmtree(root, ignore_errors=True)


def shrink(case, still):
    if 'files' not in case:
        return case
    return findings.shrink_list(case, 'files', still)


def completed_ro(ro_xml, ro_id):
    with warnings.catch_warnings():
        warnings.simplefilter('ignore')
        ro = RunningOrder.from_string(ro_xml)
        ro += MosFile.from_string(B.tostring(B.envelope(B.ro_delete(ro_id), 999999)))
        return str(ro)


@st.composite
def listing_case(draw):
    col = draw(colgen.collection(min_msgs=1, max_msgs=6, faults='none', rich=draw(st.booleans()),
                                 with_delete='maybe', kinds=B.ALL_KINDS[:-0] if False else None))
    files = [('valid', d) for d in col['docs']]
    if draw(st.booleans()):
        files.append(('valid', completed_ro(col['docs'][0], col['ro_id'])))
    # every kind at least sometimes: one extra message of a drawn kind, compact or pretty
    state = xmlcmp.state_of(ET.fromstring(col['docs'][0]))
    _k, t = draw(gen.message(state, col['ro_id'], faults='none', rich=True, mid=777777))
    files.append(('valid', t))
    for _ in range(draw(st.integers(0, 3))):
        kind = draw(st.sampled_from(['garbage', 'unknown', 'missing', 'dir', 'empty', 'notdir', 'toolong', 'undecodable']))
        content = {'garbage': 'this is <not xml', 'unknown': '<mos><mosID>x</mosID><heartbeat/></mos>',
                   'empty': '',
                   # well-formed, but in an encoding the parser cannot decode
                   'undecodable': '<?xml version="1.0" encoding="%s"?><mos><mosID>x</mosID><messageID>1</messageID>'
                                  '<roDelete><roID>R</roID></roDelete></mos>'
                                  % draw(st.sampled_from(['Shift_JIS', 'UCS-2', 'UTF-32', 'ANSI']))}.get(kind)
        files.insert(draw(st.integers(0, len(files))), ('garbage' if kind in ('empty', 'undecodable') else kind, content))
    files = list(draw(gen.permutation(files))) if draw(st.booleans()) else files
    names = {}
    if draw(st.integers(0, 2)) == 0:
        # unusual but legal file names; the same file listed a second time
        for i in range(len(files)):
            if draw(st.integers(0, 2)) == 0:
                names[str(i)] = draw(st.sampled_from(['with space {}.mos.xml', 'é中 {}.xml', 'a=b{}.mos.xml', '{}', 'UPPER{}.MOS.XML', 'rundown[{}].mos.xml', 'rundown[{}].mos.xml', 'f{}.mos.xm?', 'f{}*.xml',
                                                      'x{}.mos.xml.bak', "it's{}.xml"])).format(i)
        files.insert(draw(st.integers(1, len(files))), ('same-as-first', None))
    relative = False
    if names and draw(st.booleans()):
        # named relative to the current directory; editor backup / lock-file style names
        relative = True
        for i in list(names)[:2]:
            names[i] = draw(st.sampled_from(['~backup{}.mos.xml', '~${}.mos.xml', '.hidden{}.mos.xml', '@list{}.mos.xml',
                                             '+plus{}.xml', '#hash{}.xml'])).format(i)
    encodings = {}
    if draw(st.booleans()):
        for i in range(len(files)):
            if draw(st.integers(0, 2)) == 0:
                encodings[str(i)] = draw(st.sampled_from(['latin1', 'utf16', 'utf16be']))
    return {'cmd': draw(st.sampled_from(['detect', 'inspect'])), 'files': [list(f) for f in files], 'names': names,
            'relative': relative, 'encodings': encodings}


@st.composite
def merge_case(draw):
    shape = draw(st.sampled_from(['valid', 'valid', 'valid', 'no-delete', 'two-creates', 'garbage-member',
                                  'strict-failure', 'no-input', 'missing-member', 'completed-create',
                                  'blank-mid-member', 'undecodable-member']))
    faults = 'heavy' if shape == 'strict-failure' else 'none'
    col = draw(colgen.collection(min_msgs=1, max_msgs=6, faults=faults, rich=draw(st.booleans()),
                                 with_delete='no' if shape == 'no-delete' else 'always'))
    files = [['valid', d] for d in col['docs']]
    if shape == 'two-creates':
        r = ET.fromstring(col['docs'][0])
        r.find('messageID').text = '7654321'
        files.append(['valid', ET.tostring(r, encoding='unicode')])
    elif shape == 'garbage-member':
        files.insert(draw(st.integers(0, len(files))), ['garbage', '<mos><unclosed></mos>'])
    elif shape == 'missing-member':
        files.insert(draw(st.integers(0, len(files))), ['missing', None])
    elif shape == 'blank-mid-member':
        # a member whose messageID is empty / not a number: whatever the library raises, status 2
        r = ET.fromstring(files[-1][1])
        r.find('messageID').text = draw(st.sampled_from([None, 'abc', '']))
        files[-1] = ['valid', ET.tostring(r, encoding='unicode')]
    elif shape == 'undecodable-member':
        files.insert(draw(st.integers(0, len(files))),
                     ['garbage', '<?xml version="1.0" encoding="%s"?><mos><mosID>x</mosID><messageID>1</messageID>'
                                 '<roStoryDelete><roID>R</roID><storyID>1</storyID></roStoryDelete></mos>'
                      % draw(st.sampled_from(['Shift_JIS', 'UCS-2', 'ANSI']))])
    elif shape == 'no-input':
        files = []
    elif shape == 'completed-create':
        # the roCreate is the output of an earlier merge that included a roDelete
        files[0] = ['valid', completed_ro(col['docs'][0], col['ro_id'])]
        if draw(st.booleans()):
            files = [f for f in files if 'roDelete' not in f[1][:4000] or f is files[0]]
    files = list(draw(gen.permutation(files)))
    opts = {'o': draw(st.sampled_from([False, True, True, 'input'])), 'i': draw(st.booleans()),
            'n': draw(st.booleans()), 'o_index': draw(st.integers(0, 9))}
    return {'cmd': 'merge', 'files': files, 'opts': opts, 'shape': shape}


def shard(args):
    n, seed = args
    col = Collector(PROP)

    def one(case):
        kinds = [k for k, _ in case['files']]
        bad_idx = [i for i, k in enumerate(kinds) if k != 'valid']
        not_last = any(i < len(kinds) - 1 for i in bad_idx)
        cl = [case['cmd']]
        if not_last:
            cl.append('bad-file-not-last')
        if 'missing' in kinds:
            cl.append('missing-path')
        if 'dir' in kinds:
            cl.append('directory')
        if 'notdir' in kinds or 'toolong' in kinds:
            cl.append('other-OSError')
        if case.get('relative'):
            cl.append('relative-names')
        if case.get('encodings'):
            cl.append('non-utf8-files')
        if any(k == 'valid' and c and 'mosromgrmeta' in c for k, c in case['files']):
            cl.append('completed-ro')
        if case.get('names'):
            cl.append('odd-file-names')
        if 'same-as-first' in kinds:
            cl.append('file-listed-twice')
        col.record(case, len(kinds) >= 3 and not_last, cl, rejudge(case),
                   key=h64(case['cmd'], str(case['files'])))
    drive.run_given(listing_case(), one, n, seed)

    def one_s3(case):
        c = dict(case, via='s3', opts={'s': len(case['files']) % 2 == 0}, page_size=1 + len(case['files']) % 3)
        col.record(c, True, [case['cmd'], f"{case['cmd']}:s3"], rejudge(c),
                   key=h64('s3', case['cmd'], str(case['files'])))
    drive.run_given(listing_case(), one_s3, max(5, n // 3), seed + 2)

    def two_s3(case):
        if not case['files'] or any(k in ('missing', 'dir', 'notdir', 'toolong') for k, _ in case['files']):
            return
        c = {'cmd': 'merge', 'files': case['files'], 'via': 's3', 'page_size': 2,
             'opts': {'i': case['opts']['i'], 'n': case['opts']['n'], 's': bool(case['opts']['o'])}}
        col.record(c, True, ['merge', 'merge:s3'], rejudge(c), key=h64('s3m', str(case['files']), str(c['opts'])))
    drive.run_given(merge_case(), two_s3, max(5, n // 3), seed + 3)

    def two(case):
        cl = ['merge', f"merge:shape:{case['shape']}"]
        for o in 'oin':
            if case['opts'].get(o):
                cl.append(f'merge:-{o}')
        if case['opts'].get('o') == 'input' and case['files']:
            cl.append('merge:-o=input-file')
        if case['shape'] in ('two-creates',) or (case['shape'] == 'no-delete' and not case['opts']['i']):
            cl.append('merge:invalid-collection')
        if case['shape'] == 'strict-failure' and not case['opts']['n']:
            cl.append('merge:strict-failure')
        if case['shape'] == 'no-input':
            cl.append('merge:no-input')
        c = {k: case[k] for k in ('cmd', 'files', 'opts')}
        col.record(c, any(case['opts'].values()) or case['shape'] != 'valid', cl, rejudge(c),
                   key=h64(str(case['files']), str(case['opts'])))
    drive.run_given(merge_case(), two, n, seed + 1)
    return col


def shard_subprocess(args):
    """Real process exit statuses for a few invocations."""
    col = Collector(PROP)
    root = os.path.join(env.WORK_DIR, f'c19-sub-{os.getpid()}')
    shutil.rmtree(root, ignore_errors=True)
    os.makedirs(root)
    try:
        ro = gen.ro_with_layout(['S0', 'S1'], 'none')
        dele = B.tostring(B.envelope(B.ro_delete('RO1'), 5000))
        p1, p2, bad = (os.path.join(root, n) for n in ('a.mos.xml', 'b.mos.xml', 'bad.mos.xml'))
        for p, t in ((p1, ro), (p2, dele), (bad, 'nope')):
            with open(p, 'w') as f:
                f.write(t)
        prog = f"import sys; sys.path.insert(0, {env.REPO_DIR!r}); from mosromgr.cli import main; sys.exit(main())"
        for argv, exp_status in ((['merge', '-f', p1, p2], 0), (['merge', '-f', p1], 2), (['merge', '-f', p1, '-i'], 0),
                                 (['merge', '-f', p1, bad], 2), (['detect', '-f', bad, p1], None), (['merge'], 2),
                                 (['detect', '-f', os.path.join(root, 'nonexistent'), p1], None)):
            r = subprocess.run([sys.executable, '-B', '-c', prog] + argv, capture_output=True, text=True, timeout=120,
                               env=dict(os.environ, PYTHONDONTWRITEBYTECODE='1'))
            fails = []
            if exp_status is not None and r.returncode != exp_status:
                fails.append(Failure(PROP, f'C19|process-exit-status|{argv[0]}|expected-{exp_status}-got-{r.returncode}',
                                     f'`mosromgr {" ".join(os.path.basename(a) for a in argv)}` exited '
                                     f'{r.returncode}, expected {exp_status}; stderr {r.stderr[-300:]!r}'))
            if argv[0] == 'detect' and p1 + ': RunningOrder' not in r.stdout:
                fails.append(Failure(PROP, 'C19|detect|files-not-processed|after-unreadable',
                                     f'real process: the valid file after a bad one was not reported: {r.stdout!r} {r.stderr[-200:]!r}'))
            col.record({'cmd': 'subprocess', 'argv': [os.path.basename(a) for a in argv]}, True, ['subprocess'], fails, key=h64(str(argv)))
    finally:
        shutil.rmtree(root, ignore_errors=True)
    return col


def run(tier, seed, procs):
    quick = tier == 'quick'
    shards, per = (8, 50) if quick else (16, 2500)
    cols = drive.pool_map(shard, [(per, seed * 1000 + i) for i in range(shards)], procs)
    cols += drive.pool_map(shard_subprocess, [None], 1)
    return drive.merge_all(PROP, cols)
