"""C02 - item order inside the addressed story follows the MOS protocol."""
from vlib import drive, gen, step, history

PROP = 'C02'
MOD = 'checks.c02'
SHRINK_FIELDS = ['ro_xml', 'msg_xml']
RULE = (
    "Cases: (a) exhaustive small scope - a story with m items I0..Im-1 in 4 paragraph layouts (none, "
    "<p> before each item, trailing <p>, mixed), addressed story first or last, a second story "
    "holding the same item IDs x every item-level message kind (9) x every ordered tuple of <=K "
    "distinct source IDs (incl. one unknown) x every reference item in items + {blank, unknown}; "
    "(b) Hypothesis single steps on rich running orders (item IDs repeat across stories); (c) "
    "Hypothesis rule-based histories.  Oracle: reference model on the item-ID sequence of the "
    "addressed story read from str(ro); conservation of the (story,item) multiset for MOVE/SWAP on "
    "every input.  Non-trivial = item-level message whose references resolve, addressed story has "
    ">= 2 items; distinct = distinct (state text, message text) digests."
    " Also: paragraph layouts with the storyID last, an anonymous item (empty itemID), look-alike 'twin' item IDs and a <storyItem> / foreign-namespace <item> carrying a real item's ID ahead of it; the same source named twice in a move; merge-route and logging alternation as in C01."
    " Round 11: history steps re-using an earlier messageID; directed three-step 'returning element' histories for items.")
ASSUMPTIONS = [
    'item IDs unique within a story (they repeat across stories on purpose); carried items get fresh IDs',
    'repeated IDs inside one message / reference among the sources: conservation only',
    'roElementAction item MOVE with a blank target itemID: error or "end" accepted',
]
MANDATORY = [
    'ItemMoveMultiple:forward-move', 'ItemMoveMultiple:backward-move', 'ItemMoveMultiple:target=end',
    'ItemMoveMultiple:sources-both-sides', 'ItemMoveMultiple:multi-source',
    'EAItemMove:forward-move', 'EAItemMove:sources-both-sides', 'EAItemMove:sources-not-in-doc-order',
    'EAItemSwap:swap-first-operand-later', 'EAItemSwap:swap-adjacent', 'EAItemSwap:swap-apart',
    'EAItemDelete:multi-id-delete', 'ItemDelete:multi-id-delete', 'ItemInsert:ref-blank=end',
    'EAItemInsert:ref-blank=end', 'ItemReplace:multi-item-replace', 'EAItemReplace:multi-item-replace',
    'ItemInsert:multi-item-insert',
]


def judge(ev):
    return step.judge_order(PROP, 'item', ev.obs, ev.ex, ev.msg, ev.state)


def record(col, ev):
    m, ex = ev.msg, ev.ex
    if m.level != 'item':
        col.record(ev.case, False, [f'other-level:{m.level}'], [], key=0)
        return
    fails = judge(ev)
    n_items = len(dict(ev.state).get(ex.addressed, [])) if ex.addressed else 0
    nontrivial = ex.resolves and not ex.degenerate and n_items >= 2
    classes = [f'{m.kind}:{c}' for c in ex.classes] or [f'{m.kind}:plain']
    if ex.degenerate:
        classes.append(f'{m.kind}:degenerate(conservation-only)')
    elif not ex.resolves:
        classes.append(f'{m.kind}:unresolved(conservation-only)')
    col.record(ev.case, nontrivial, classes, fails, key=drive.ev_key(ev))


def rejudge(case):
    if 'history' in case:
        return history.rejudge_history(case, MOD)
    return judge(drive.eval_step(case))


PLAYOUTS = ['none', 'p-before-each', 'trailing-p', 'mixed', 'id-last', 'anon-item', 'twin-items']


def run(tier, seed, procs):
    quick = tier == 'quick'
    M, K = (4, 3) if quick else (6, 4)
    tasks = [(MOD, m, pl, K, pos, None) for m in range(0, M + 1) for pl in PLAYOUTS for pos in (0, 1)]
    cols = drive.pool_map(drive.shard_enum_item, tasks, procs)
    kw = dict(allow_no_slug=True, kinds=gen.ITEM_KINDS, faults='some', rich=True, degenerate=True, min_stories=1)
    shards, per = (8, 400) if quick else (16, 12000)
    cols += drive.pool_map(drive.shard_hyp_steps,
                           [(MOD, per, seed * 1000 + i, kw) for i in range(shards)], procs)
    hs, runs, steps = (8, 30, 20) if quick else (16, 800, 50)
    cols += drive.pool_map(history.shard_history,
                           [(MOD, runs, steps, seed * 1000 + 500 + i, {}) for i in range(hs)], procs)
    cols += drive.pool_map(drive.shard_enum_stale, [(MOD, 'item', i, 2 if quick else 3) for i in range(9)], procs)
    cols += drive.pool_map(history.shard_returning, [MOD], 1)
    return drive.merge_all(PROP, cols)
