"""C13 - merging depends only on content; message objects stay independent."""
import warnings
from xml.etree import ElementTree as ET

from hypothesis import strategies as st
from hypothesis.stateful import RuleBasedStateMachine, initialize, rule, precondition

from vlib import env, drive, gen, history, build, model, xmlcmp, findings
from vlib.findings import Collector, h64
from vlib.step import Failure

from mosromgr.mostypes import MosFile, RunningOrder

PROP = 'C13'
MOD = 'checks.c13'
RULE = (
    "Cases: Hypothesis rule-based histories over four running orders built from one roCreate: A "
    "receives live message *objects*; A' receives freshly parsed copies of the same texts; B receives, "
    "later and while A keeps being edited, the *same objects* that A received (re-use); B' receives "
    "fresh copies.  Messages of all 25 merging kinds are drawn against A's current state, biased to "
    "carry stories and then to edit inside carried stories (item delete/insert/replace/move/swap, "
    "re-send, replace).  Invariants after every step: (I1) str(m) of every message object ever merged "
    "equals its value before its first merge, and so does what its accessors expose (story / stories / "
    "item(s) / source / target IDs and the content of carried stories and items); (I2) str(A) == str(A'); (I3) str(B) == str(B') and the "
    "re-used object raises exactly when the fresh copy does; (I4) no Element object belongs to two of {A, A', B, B', the six most recent message objects} (shared mutable content, even where no message can yet make it visible), nor does a non-empty attribute dictionary; (I6) a message object edited through its public .xml and merged again contributes its current content, like a fresh parse of its str() (one edit in three also swaps the whole message element for a copy); the live side of each pair is merged through msg.merge(ro) or ro += msg (chosen by the message text), the reference side always through +=; (I5, collections) MosReader objects handed to a second MosCollection give the same result as freshly built readers.  Non-trivial = a step whose message "
    "edits a story that an earlier message object carried, or a re-use step of a payload-carrying "
    "object; distinct = distinct (state text, message text) digests."
    ' Round 11: the four running orders of a world are read from the same text through MosFile.from_string and RunningOrder.from_string in turn.')
ASSUMPTIONS = []
MANDATORY = ['message-edited-then-merged', 'readers-in-two-collections', 'same-object-merged-twice', 'edit-inside-carried-story', 'reuse-of-payload-object', 'reuse-after-edit',
             'carried-by:StoryAppend', 'carried-by:StoryInsert', 'carried-by:StoryReplace',
             'carried-by:EAStoryInsert', 'carried-by:EAStoryReplace', 'carried-by:StorySend']

KINDS = ([k for k in build.ALL_KINDS if k != 'roDelete'] +   # roDelete once: it ends the edits of A
        
         ['roStoryAppend', 'roStoryInsert', 'roStoryReplace', 'EAStoryInsert', 'EAStoryReplace',
          'roStorySend', 'roItemDelete', 'roItemInsert', 'roItemReplace', 'roItemMoveMultiple',
          'EAItemDelete', 'EAItemSwap', 'EAItemMove', 'roItemDelete', 'EAItemInsert', 'roDelete'])


def _merge(ro, obj, route='add'):
    """-> exception type name or None.  route 'merge': the other documented route, obj.merge(ro)
    (what `+` calls after its completed guard) - used for the live side of a pair only."""
    try:
        if route == 'merge' and not ro.completed:
            obj.merge(ro)
        else:
            ro += obj
        return None
    except Exception as e:
        return type(e).__name__


def _route(text, salt=''):
    return 'merge' if h64(text, salt) % 2 == 0 else 'add'


class World:
    """The four running orders and the bookkeeping, replayable from ops."""

    def __init__(self, ro_xml):
        # the four running orders are read from the very same text, through the generic entry point
        # (MosFile.from_string) and the class's own in turn: each is an object of its own
        how = h64(ro_xml, 'entry') % 3
        mk = [MosFile.from_string, RunningOrder.from_string]
        self.a, self.a_ref, self.b, self.b_ref = (mk[(i + how) % 2 if how < 2 else 0](ro_xml) for i in range(4))
        self.objs = []          # (obj, str before first merge, text, kind)
        self.views = []         # accessor view of each object before its first merge
        self.j = 0              # how many objects B has received
        self.carried = {}       # story id -> kind of the message that carried it
        self.fails = []
        self.edited_since = set()

    def check(self, what):
        from checks.c20 import msg_view
        for k, (obj, s0, text, kind) in enumerate(self.objs):
            if str(obj) != s0:
                self.fails.append(Failure(PROP, f'C13|{kind}|message-object-modified',
                                          f'after {what}: str() of a merged {kind} object changed',
                                          s0, str(obj)))
            elif k >= len(self.objs) - 6 and msg_view(obj) != self.views[k]:
                # what the object exposes through its accessors (IDs, carried stories/items)
                # must not change either (only the most recent objects are re-read: cost)
                self.fails.append(Failure(PROP, f'C13|{kind}|message-accessors-changed',
                                          f'after {what}: the accessors of a merged {kind} object expose '
                                          f'different content than before its merge', self.views[k], msg_view(obj)))
        # no element OBJECT may belong to two of: the running orders, the merged message objects
        trees = [('A', self.a.xml), ("A'", self.a_ref.xml), ('B', self.b.xml), ("B'", self.b_ref.xml)]
        trees += [(f'{kind} object', obj.xml) for obj, _s, _t, kind in self.objs[-6:]]
        owner = {}
        for name, tree in trees:
            for e in tree.iter():
                if len(e.attrib):
                    # the attribute dictionary is mutable content too (a shallow copy shares it)
                    o2 = owner.setdefault(('attrib', id(e.attrib)), name)
                    if o2 != name:
                        self.fails.append(Failure(PROP, 'C13|attribute-dict-shared',
                                                  f'after {what}: the attribute dictionary of a <{e.tag}> element is one '
                                                  f'object in both {o2} and {name}: .set() on one changes the other'))
                        break
                other = owner.setdefault(id(e), name)
                if other != name:
                    kind_ = (other if 'object' in other else name).replace(' object', '')
                    self.fails.append(Failure(PROP, f'C13|{kind_ if "object" in other + name else "running-orders"}|element-object-shared',
                                              f'after {what}: one <{e.tag}> element object is part of both '
                                              f'{other} and {name}: editing it in one changes the other'))
                    break
            else:
                continue
            break
        # (compared structurally: the two routes / a re-indenting library may differ in ignorable white space)
        if xmlcmp.canon(self.a.xml) != xmlcmp.canon(self.a_ref.xml) or self.a.completed != self.a_ref.completed:
            self.fails.append(Failure(PROP, 'C13|running-order-differs-from-fresh-fold',
                                      f'after {what}: the running order that received live objects differs '
                                      'from the one that received freshly parsed copies',
                                      str(self.a_ref), str(self.a)))
        if xmlcmp.canon(self.b.xml) != xmlcmp.canon(self.b_ref.xml) or self.b.completed != self.b_ref.completed:
            kinds = sorted({k for _o, _s, _t, k in self.objs[:self.j]})
            self.fails.append(Failure(PROP, 'C13|reused-object-merge-differs',
                                      f'after {what}: merging re-used objects gives a different running '
                                      f'order than merging fresh copies (objects so far: {kinds})',
                                      str(self.b_ref), str(self.b)))

    def send(self, text):
        obj = MosFile.from_string(text)
        kind = type(obj).__name__
        s0 = str(obj)
        from checks.c20 import msg_view
        self.views.append(msg_view(obj))
        m = model.Msg(text)
        info = {'kind': kind, 'edit_inside_carried': False}
        tgt = None
        if m.level == 'item' and m.story_ref[0] == 'id':
            tgt = m.story_ref[1]
        elif kind in ('StorySend',) and m.story_ref[0] == 'id':
            tgt = m.story_ref[1]
        if tgt in self.carried:
            info['edit_inside_carried'] = True
            info['carried_by'] = self.carried[tgt]
            self.edited_since.add(tgt)
        e1 = _merge(self.a, obj, _route(text))
        e2 = _merge(self.a_ref, MosFile.from_string(text))
        if e1 != e2:
            self.fails.append(Failure(PROP, f'C13|{kind}|live-vs-fresh-exception-differs',
                                      f'{kind}: live object raised {e1}, fresh copy raised {e2}'))
        self.objs.append((obj, s0, text, kind))
        if e1 is None and m.level == 'story':
            for pid in m.payload_ids():
                if pid is not None:
                    self.carried[pid] = kind
        self.check(f'send {kind}')
        return info

    def again(self):
        """Merge the most recent message object into A a second time (and a fresh copy into A')."""
        obj, s0, text, kind = self.objs[-1]
        e1 = _merge(self.a, obj)
        e2 = _merge(self.a_ref, MosFile.from_string(text))
        if e1 != e2:
            self.fails.append(Failure(PROP, f'C13|{kind}|second-merge-of-same-object-differs',
                                      f'{kind} merged twice in a row: live object raised {e1}, fresh copy raised {e2}'))
        self.check(f'second merge of the same {kind}')
        return {'kind': kind}

    def edit(self, n):
        """Edit the most recent message object through its public .xml (a slug / paragraph / ID-less text
        inside the message element), then merge it again: what is merged must be the content the object
        has NOW, exactly as a fresh parse of str(obj) would give."""
        from checks.c20 import msg_view
        obj, _s0, _text, kind = self.objs[-1]
        # the message element, looked up in the tree itself (not through the library's base_tag)
        tagname = getattr(getattr(obj, 'base_tag', None), 'tag', None)
        body = next((c for c in obj.xml if c.tag == tagname), obj.xml)
        cands = [e for e in body.iter() if e.tag in ('storySlug', 'itemSlug', 'p', 'roSlug', 'objID') and len(e) == 0]
        if not cands:
            return None
        cands[n % len(cands)].text = f'edited {n}'
        if n % 3 == 0 and body is not obj.xml:
            # ... and the whole message element swapped for an (edited) copy of itself
            import copy
            parent = obj.xml
            k = list(parent).index(body)
            parent.remove(body)
            parent.insert(k, copy.deepcopy(body))
        text = str(obj)
        self.objs[-1] = (obj, text, text, kind)
        self.views[-1] = msg_view(obj)
        e1 = _merge(self.a, obj)
        e2 = _merge(self.a_ref, MosFile.from_string(text))
        if e1 != e2:
            self.fails.append(Failure(PROP, f'C13|{kind}|edited-object-vs-fresh-exception-differs',
                                      f'{kind} edited and merged again: live object raised {e1}, fresh copy of its text raised {e2}'))
        self.check(f'merge of an edited {kind}')
        return {'kind': kind}

    def advance(self):
        obj, s0, text, kind = self.objs[self.j]
        self.j += 1
        m = model.Msg(text)
        info = {'kind': kind, 'payload': bool(m.payload) and m.level == 'story',
                'after_edit': bool(set(p for p in m.payload_ids() if p) & self.edited_since)
                if m.level == 'story' else False}
        e1 = _merge(self.b, obj, _route(text, 'b'))
        e2 = _merge(self.b_ref, MosFile.from_string(text))
        if e1 != e2:
            self.fails.append(Failure(PROP, f'C13|{kind}|reused-vs-fresh-exception-differs',
                                      f'{kind}: re-used object raised {e1}, fresh copy raised {e2}'))
        self.check(f're-use of {kind}')
        return info


def rejudge(case):
    if 'docs' in case:
        return judge_readers(case)
    with warnings.catch_warnings():
        warnings.simplefilter('ignore')
        w = World(case['ro_xml'])
        for op in case['ops']:
            if op[0] == 'send':
                w.send(op[1])
            elif op[0] == 'again':
                if w.objs:
                    w.again()
            elif op[0] == 'edit':
                if w.objs and w.j < len(w.objs):
                    w.edit(op[1])
            elif w.j < len(w.objs):
                w.advance()
    seen, out = set(), []
    for f in w.fails:
        if f.sig not in seen:
            seen.add(f.sig)
            out.append(f)
    return out


def shrink(case, still):
    return findings.shrink_list(case, 'docs' if 'docs' in case else 'ops', still)


def shard(args):
    runs, steps, seed = args
    col = Collector(PROP)

    class M(RuleBasedStateMachine):
        def __init__(self):
            super().__init__()
            self.w = None
            self.ops = []

        @initialize(ro=gen.running_order(min_stories=1, max_stories=4, max_items=3, rich=False,
                                         simple_ids=True))
        def create(self, ro):
            self.ro_xml = ro['ro_xml']
            self.ro_id = ro['ro_id']
            self.mid = ro['mid']
            self.w = World(ro['ro_xml'])

        def _record(self, classes, nontrivial, key):
            case = {'ro_xml': self.ro_xml, 'ops': list(self.ops)}
            fails, self.w.fails = self.w.fails, []
            col.record(case, nontrivial, classes, fails, key=key)

        @rule(data=st.data())
        def send(self, data):
            with warnings.catch_warnings():
                warnings.simplefilter('ignore')
                state = xmlcmp.state_of(ET.fromstring(str(self.w.a)))
                self.mid += 1
                # prefer editing inside a story that a message carried
                carried_here = [(s, its) for s, its in state if s in self.w.carried]
                if carried_here and data.draw(st.integers(0, 2)) > 0:
                    sub = carried_here
                    kinds = gen.ITEM_KINDS + ['roStorySend']
                else:
                    sub, kinds = state, KINDS
                try:
                    # one message in three with rich content (paragraphs, notes, metadata blocks)
                    _k, text = data.draw(gen.message(sub if sub is carried_here else state, self.ro_id,
                                                     kinds=kinds, faults='none',
                                                     rich=data.draw(st.integers(0, 2)) == 0, mid=self.mid,
                                                     degenerate=False, dup_inserts=True))
                except (IndexError, KeyError, ValueError, AssertionError, TypeError, AttributeError):
                    col.excluded['generator could not draw a message for the reached state'] += 1
                    return
                self.ops.append(['send', text])
                info = self.w.send(text)
            classes = [info['kind']]
            if info['edit_inside_carried']:
                classes += ['edit-inside-carried-story', f"carried-by:{info['carried_by']}"]
            self._record(classes, info['edit_inside_carried'], h64(str(self.w.a), text))

        @precondition(lambda self: self.w is not None and len(self.w.objs) > 0)
        @rule()
        def again(self):
            with warnings.catch_warnings():
                warnings.simplefilter('ignore')
                self.ops.append(['again'])
                info = self.w.again()
            self._record(['same-object-merged-twice', info['kind']], True, h64(str(self.w.a), 'again', len(self.ops)))

        # (only objects that B has not yet received: B' is fed the text recorded at send time)
        @precondition(lambda self: self.w is not None and len(self.w.objs) > 0 and self.w.j < len(self.w.objs))
        @rule(n=st.integers(0, 9))
        def edit(self, n):
            with warnings.catch_warnings():
                warnings.simplefilter('ignore')
                self.ops.append(['edit', n])
                info = self.w.edit(n)
            if info is None:
                self.ops.pop()
                return
            self._record(['message-edited-then-merged', info['kind']], True, h64(str(self.w.a), 'edit', len(self.ops)))

        @precondition(lambda self: self.w is not None and self.w.j < len(self.w.objs))
        @rule()
        def advance(self):
            with warnings.catch_warnings():
                warnings.simplefilter('ignore')
                self.ops.append(['advance'])
                info = self.w.advance()
            classes = ['reuse']
            if info['payload']:
                classes.append('reuse-of-payload-object')
            if info['after_edit']:
                classes.append('reuse-after-edit')
            self._record(classes, info['payload'], h64(str(self.w.b), 'adv', len(self.ops)))

    history.run_machine(M, runs, steps, seed)
    return col


def judge_readers(case):
    """The same MosReader objects in two collections, one after the other."""
    from mosromgr.moscollection import MosCollection, MosReader
    fails = []
    with warnings.catch_warnings():
        warnings.simplefilter('ignore')
        src = case.get('source', 'string')
        import os
        from vlib import fakes3
        work = env.ensure_dir(os.path.join(env.WORK_DIR, f'c13-{os.getpid()}'))
        fake = fakes3.FakeS3({'bkt': {f'k/{n:03d}.mos.xml': d.encode('utf-8') for n, d in enumerate(case['docs'])}})
        if src == 'file':
            readers = []
            for n, d in enumerate(case['docs']):
                with open(os.path.join(work, f'{n:03d}.mos.xml'), 'w', encoding='utf-8') as f:
                    f.write(d)
                readers.append(MosReader.from_file(os.path.join(work, f'{n:03d}.mos.xml')))
        elif src == 's3':
            with fake:
                readers = [MosReader.from_s3('bkt', f'k/{n:03d}.mos.xml') for n in range(len(case['docs']))]
        else:
            readers = [MosReader.from_string(d) for d in case['docs']]
        fake.__enter__()        # restored objects of S3 readers are fetched again at merge time
        fresh = MosCollection.from_strings(case['docs'], allow_incomplete=True)
        start = str(fresh)
        fresh.merge(strict=False)
        want = str(fresh)
        for n in (1, 2):
            mc = MosCollection(list(readers), allow_incomplete=True)
            if str(mc) != start:
                fails.append(Failure(PROP, 'C13|readers-reused|collection-does-not-start-from-the-roCreate',
                                     f'collection #{n} built from the same readers does not start from the '
                                     'roCreate as written', start, str(mc)))
            mc.merge(strict=False)
            if str(mc) != want:
                fails.append(Failure(PROP, 'C13|readers-reused|merge-differs-from-fresh-readers',
                                     f'collection #{n} built from the same MosReader objects merges to a '
                                     'different running order than freshly built readers', want, str(mc)))
        fake.__exit__()
    return fails


def shard_readers(args):
    from vlib import colgen
    n, seed = args
    col = Collector(PROP)

    def one(c):
        case = {'docs': c['docs'], 'source': ('string', 'file', 's3')[h64(*c['docs']) % 3]}
        col.record(case, len(c['docs']) >= 3, ['readers-in-two-collections', 'readers:' + case['source']], judge_readers(case),
                   key=h64(*c['docs']))
    drive.run_given(colgen.collection(min_msgs=1, max_msgs=6, faults='some', rich=False), one, n, seed)
    return col


def run(tier, seed, procs):
    quick = tier == 'quick'
    shards, runs, steps = (8, 40, 25) if quick else (16, 1500, 50)
    cols = drive.pool_map(shard, [(runs, steps, seed * 1000 + i) for i in range(shards)], procs)
    cols += drive.pool_map(shard_readers, [(40 if quick else 2000, seed * 1000 + 900 + i) for i in range(4)], procs)
    return drive.merge_all(PROP, cols)
