"""C09 - collection merge equals adding the messages one by one; strict / non-strict hold."""
import os
import shutil
import warnings
from collections import Counter

from hypothesis import strategies as st

from vlib import env, drive, colgen, fakes3, findings, gen
from vlib.findings import Collector, h64
from vlib.step import Failure

from mosromgr.exc import MosMergeError, MosRoMgrWarning
from mosromgr.moscollection import MosCollection
from mosromgr.mostypes import MosFile, RunningOrder

PROP = 'C09'
MOD = 'checks.c09'
RULE = (
    "Cases: Hypothesis collections - one roCreate plus 0-10 messages of all kinds with distinct "
    "numeric message IDs of mixed width, drawn one after the other against the state reached (so "
    "most apply) with a drawn share of failing ones (unknown/blank references) at drawn positions, a "
    "roDelete at the end, in the middle (everything after it fails) or absent; supplied in a drawn "
    "permutation through each of {strings, files in a check-created directory, fake-S3 keys} and "
    "merged with strict in {True, False}.  Oracle: hand fold - parse the roCreate, add each *freshly "
    "parsed* message in ascending numeric ID order.  Non-strict: str(mc) equals the fold that skips "
    "raising messages, the number of MosMergeNonStrictWarnings equals the number of fold steps that "
    "raised MosMergeError, all other mosromgr warnings form the same multiset.  Strict: the same "
    "exception type as the first failing fold step propagates and str(mc) equals the fold of all "
    "earlier messages.  The roCreate carries any of the message IDs (not only the lowest); in a quarter "
    "of the cases merge() is called a second time (non-strict) and must equal adding the messages again; in a share of the file / S3 cases one message's file is overwritten with garbage after construction (injected fault): the merge must stop there with MosInvalidXML in both modes, with the earlier messages applied.  Non-trivial = >= 3 messages and (a failing message that is not last, or "
    "messages after the roDelete); distinct = digest of the document list and mode.")
ASSUMPTIONS = ['self-consistency oracle by design: the property is an equivalence between two API paths; '
               'absolute correctness of one step is C01-C06']
MANDATORY = ['fault:file-damaged-after-construction', 'str-with-foreign-declaration', 'strict', 'non-strict', 'non-utf8-source', 'merge-called-twice', 'roCreate-not-lowest-id', 'source:strings', 'source:files', 'source:s3',
             'failing-message-not-last', 'messages-after-roDelete', 'several-failures', 'no-failure']


def fold(docs, strict, ro=None):
    """-> (final str, n_merge_errors, other warnings Counter, exception type name or None)"""
    ro = ro if ro is not None else RunningOrder.from_string(docs[0])
    msgs = sorted(docs[1:], key=lambda d: MosFile.from_string(d).message_id)
    nfail, other = 0, Counter()
    fails_at = []
    for i, d in enumerate(msgs):
        with warnings.catch_warnings(record=True) as rec:
            warnings.simplefilter('always')
            try:
                ro += MosFile.from_string(d)
            except MosMergeError as e:
                nfail += 1
                fails_at.append(i)
                if strict:
                    return str(ro), nfail, other, type(e).__name__, fails_at, ro
            except Exception as e:
                return str(ro), nfail, other, type(e).__name__, fails_at, ro
            finally:
                for w in rec:
                    if issubclass(w.category, MosRoMgrWarning):
                        other[w.category.__name__] += 1
    return str(ro), nfail, other, None, fails_at, ro


def _fname(n):
    return f'f{n:03d}.mos.xml' if n % 4 != 1 else ('f[%d].mos.xml', 'f*%d.mos.xml', 'f?%d.mos.xml')[n % 3] % n


def build_collection(case, workdir):
    docs, order, source = case['docs'], case['order'], case['source']
    supplied = [docs[i] for i in order]
    if source == 'strings':
        if case.get('enc'):
            # every third str still carries the declaration of the encoding it was decoded from
            from checks.c08 import ENCODINGS
            supplied = [(f'<?xml version="1.0" encoding="{ENCODINGS[case["enc"]][0]}"?>' + d) if n % 3 == 0 else d
                        for n, d in enumerate(supplied)]
        return MosCollection.from_strings(supplied, allow_incomplete=True), None
    def raw(n, d):
        # every third document of a byte-oriented source in a declared non-UTF-8 encoding
        enc = case.get('enc')
        if enc and n % 3 == 0:
            from checks.c08 import encoded, encodable
            if encodable(d, enc):
                return encoded(d, enc)
        return d.encode('utf-8')
    if source == 'files':
        os.makedirs(workdir, exist_ok=True)
        paths = []
        for n, d in enumerate(supplied):
            # every fourth file name holds a shell metacharacter (a literal '[', '*', '?')
            p = os.path.join(workdir, _fname(n))
            with open(p, 'wb') as f:
                f.write(raw(n, d))
            paths.append(p)
        return MosCollection.from_files(paths, allow_incomplete=True), None
    fake = fakes3.FakeS3({'bkt': {f'pfx/k{n:03d}.mos.xml': raw(n, d) for n, d in enumerate(supplied)}},
                         page_size=case.get('page_size', 3))
    with fake:
        mc = MosCollection.from_s3(bucket_name='bkt', prefix='pfx/', allow_incomplete=True)
    return mc, fake


def judge_case(case):
    workdir = os.path.join(env.WORK_DIR, f'c09-{os.getpid()}')
    strict = case['strict']
    mode = 'strict' if strict else 'non-strict'
    exp_str, exp_nfail, exp_other, exp_exc, _, exp_ro = fold(case['docs'], strict)
    damage = case.get('damage') if case['source'] in ('files', 's3') and len(case['docs']) > 1 else None
    victim = None
    if damage is not None:
        # injected fault: one message's file / object is overwritten with garbage AFTER the collection
        # was constructed.  Adding the messages one by one stops right there: reading it fails
        msgs = sorted(case['docs'][1:], key=lambda d: MosFile.from_string(d).message_id)
        victim = msgs[damage % len(msgs)]
        upto = [case['docs'][0]] + msgs[:damage % len(msgs)]
        exp_str, exp_nfail, exp_other, exp_exc, _, exp_ro = fold(upto, strict)
        if exp_exc is None:
            exp_exc = 'MosInvalidXML'
    fails = []
    try:
        mc, fake = build_collection(case, workdir)
        if victim is not None:
            n = [case['docs'][i] for i in case['order']].index(victim)
            if fake is not None:
                fake.buckets['bkt'][f'pfx/k{n:03d}.mos.xml'] = b'no longer <xml'
            else:
                with open(os.path.join(workdir, _fname(n)), 'wb') as f:
                    f.write(b'no longer <xml')
        got_exc = None
        with warnings.catch_warnings(record=True) as rec:
            warnings.simplefilter('always')
            try:
                if fake is not None:
                    with fake:
                        mc.merge(strict=strict)
                else:
                    mc.merge(strict=strict)
            except Exception as e:
                got_exc = type(e).__name__
        got = Counter()
        for w in rec:
            if issubclass(w.category, MosRoMgrWarning):
                got[w.category.__name__] += 1
        n_ns = got.pop('MosMergeNonStrictWarning', 0)
        if got_exc != exp_exc:
            fails.append(Failure(PROP, f'C09|{mode}|exception-differs',
                                 f'{mode}/{case["source"]}: merge raised {got_exc}, hand fold {exp_exc}',
                                 exp_exc, got_exc))
        if str(mc) != exp_str:
            fails.append(Failure(PROP, f'C09|{mode}|result-differs-from-fold',
                                 f'{mode}/{case["source"]}: str(mc) differs from the hand fold',
                                 exp_str, str(mc)))
        if not strict and n_ns != exp_nfail:
            fails.append(Failure(PROP, 'C09|non-strict|wrong-number-of-nonstrict-warnings',
                                 f'{n_ns} MosMergeNonStrictWarning for {exp_nfail} failing messages',
                                 exp_nfail, n_ns))
        if strict and n_ns:
            fails.append(Failure(PROP, 'C09|strict|nonstrict-warning-in-strict-mode',
                                 f'{n_ns} MosMergeNonStrictWarning in strict mode'))
        if got != exp_other:
            fails.append(Failure(PROP, f'C09|{mode}|other-warnings-differ',
                                 f'warnings {dict(got)} vs hand fold {dict(exp_other)}',
                                 dict(exp_other), dict(got)))
        if case.get('again') and not fails and victim is None:
            # calling merge() again applies every message again - to the running order as it
            # is now - exactly as adding them one by one again would
            exp2, nfail2, _o2, exc2, _f2, _r2 = fold(case['docs'], False, ro=exp_ro)
            got_exc2 = None
            with warnings.catch_warnings(record=True) as rec2:
                warnings.simplefilter('always')
                try:
                    if fake is not None:
                        with fake:
                            mc.merge(strict=False)
                    else:
                        mc.merge(strict=False)
                except Exception as e:
                    got_exc2 = type(e).__name__
            n2 = sum(1 for w in rec2 if w.category.__name__ == 'MosMergeNonStrictWarning')
            if got_exc2 != exc2 or str(mc) != exp2 or n2 != nfail2:
                fails.append(Failure(PROP, 'C09|second-merge|differs-from-adding-the-messages-again',
                                     f'second merge(strict=False): exception {got_exc2} vs {exc2}, '
                                     f'{n2} vs {nfail2} non-strict warnings, same text: {str(mc) == exp2}',
                                     exp2, str(mc)))
    finally:
        shutil.rmtree(workdir, ignore_errors=True)
    return fails


def rejudge(case):
    return judge_case(case)


def shrink(case, still):
    # drop documents (never the roCreate) keeping `order` a permutation
    case = dict(case)
    changed = True
    while changed:
        changed = False
        for i in range(len(case['docs']) - 1, 0, -1):
            docs = case['docs'][:i] + case['docs'][i + 1:]
            trial = dict(case, docs=docs, order=list(range(len(docs))))
            try:
                ok = still(trial)
            except Exception:
                ok = False
            if ok:
                case = trial
                changed = True
                break
    return case


@st.composite
def cases(draw):
    col = draw(colgen.collection(max_msgs=10, faults=draw(st.sampled_from(['none', 'some', 'some', 'heavy'])),
                                 rich=draw(st.integers(0, 2)) == 0, allow_no_slug=True))
    docs = col['docs']
    order = list(draw(gen.permutation(range(len(docs)))))
    return {'docs': docs, 'order': order, 'strict': draw(st.booleans()),
            'source': draw(st.sampled_from(['strings', 'strings', 'files', 's3'])),
            'page_size': draw(st.integers(1, 4)), 'has_delete': col['has_delete'],
            'again': draw(st.integers(0, 3)) == 0, 'enc': draw(st.sampled_from([None, None, 'latin1', 'utf16'])),
            'damage': draw(st.sampled_from([None, None, None, 0, 1, 2, 5]))}


def shard(args):
    n, seed = args
    col = Collector(PROP)

    def one(case):
        _s, nfail, _o, exc, fails_at, _ro = fold(case['docs'], False)
        nmsg = len(case['docs']) - 1
        classes = ['strict' if case['strict'] else 'non-strict', f"source:{case['source']}"]
        not_last = any(i < nmsg - 1 for i in fails_at)
        if not_last:
            classes.append('failing-message-not-last')
        kinds = [type(MosFile.from_string(d)).__name__ for d in sorted(
            case['docs'][1:], key=lambda d: MosFile.from_string(d).message_id)]
        after_delete = 'RunningOrderEnd' in kinds and kinds.index('RunningOrderEnd') < len(kinds) - 1
        if after_delete:
            classes.append('messages-after-roDelete')
        if nfail >= 2:
            classes.append('several-failures')
        if nfail == 0:
            classes.append('no-failure')
        if case['again']:
            classes.append('merge-called-twice')
        if case.get('damage') is not None and case['source'] != 'strings' and nmsg:
            classes.append('fault:file-damaged-after-construction')
        if case.get('enc') and case['source'] != 'strings':
            classes.append('non-utf8-source')
        if case.get('enc') and case['source'] == 'strings':
            classes.append('str-with-foreign-declaration')
        mids_ = [MosFile.from_string(d).message_id for d in case['docs']]
        if mids_[0] != min(mids_):
            classes.append('roCreate-not-lowest-id')
        nontrivial = nmsg >= 3 and (not_last or after_delete)
        col.record({k: case[k] for k in ('docs', 'order', 'strict', 'source', 'page_size', 'again', 'enc', 'damage')},
                   nontrivial, classes, judge_case(case),
                   key=h64(*case['docs'], case['strict'], case['source'], str(case['order'])))
    drive.run_given(cases(), one, n, seed)
    return col


def run(tier, seed, procs):
    quick = tier == 'quick'
    shards, per = (8, 250) if quick else (16, 6000)
    cols = drive.pool_map(shard, [(per, seed * 1000 + i) for i in range(shards)], procs)
    return drive.merge_all(PROP, cols)
