"""C05 - a merge that raises leaves the running order exactly as it was."""
from vlib import drive, gen, step, history, build

PROP = 'C05'
MOD = 'checks.c05'
SHRINK_FIELDS = ['ro_xml', 'msg_xml']
RULE = (
    "Cases: the exhaustive story-level and item-level scopes (every kind x every ordered source "
    "tuple in which the unresolvable ID sits at each position k, unknown / blank targets, unknown / "
    "blank / missing story references, identical and blank swap operands), Hypothesis single steps "
    "with fault-heavy and self-referential references on rich running orders, and Hypothesis "
    "histories (failures from reached states); a directed scope of unusual payloads (duplicate / ID-less / missing carried elements at every "
    "payload position for replace, insert, append and the item kinds; roStorySend without or with two "
    "storyBody elements; odd metadata) where only atomicity is judged; plus non-strict collection merges with any number "
    "and placement of failing messages (metamorphic: result == merge of only the messages that did "
    "not raise).  Oracle: str(ro) immediately before `ro += msg` == str(ro) after the exception "
    "propagated, for any exception type.  Non-trivial = the merge raised; distinct = distinct "
    "(state text, message text) digests."
    ' Also: roMetadataReplace carrying non-metadata elements at every position among real metadata; anonymous / twin-ID layouts; repeated sources in moves; messages addressed to another roID; running orders without roSlug; present-but-empty timing tags.'
    ' Round 11: look-alike (white-space padded) copies of listed IDs at every position of moves, deletes and swaps; returning-element histories; history steps re-using an earlier messageID.')
ASSUMPTIONS = ['an exception of any type counts (the type itself is C12\'s business)']
MANDATORY = ['raised', 'malformed-payload', 'ItemMoveMultiple:fault-at-k>1', 'EAStoryMove:fault-at-k>1',
             'EAItemMove:fault-at-k>1', 'EAStorySwap:swap-self', 'EAItemSwap:swap-self',
             'EAStorySwap:second-operand-unresolved', 'EAItemSwap:second-operand-unresolved',
             'collection:non-strict-with-failures']


def judge(ev):
    return step.judge_atomic(ev.obs, ev.msg)


def record(col, ev):
    m, ex, obs = ev.msg, ev.ex, ev.obs
    raised = obs.exc is not None
    classes = []
    if raised:
        classes += ['raised', f'{m.kind}:raised:{obs.exc_type}']
    else:
        classes.append('did-not-raise')
    # input-shape classes (independent of how the tree under test reacts)
    if True:
        if m.kind in ('ItemMoveMultiple', 'EAStoryMove', 'EAItemMove') and len(m.sources) >= 2:
            pool = [s for s, _ in ev.state] if m.kind == 'EAStoryMove' else \
                (dict(ev.state).get(ex.addressed, []) if ex.addressed else None)
            if pool is not None:
                bad = [i for i, (t, v) in enumerate(m.sources) if t != 'id' or v not in pool]
                if bad and bad[0] >= 1:
                    classes.append(f'{m.kind}:fault-at-k>1')
        if 'swap-self' in ex.classes:
            classes.append(f'{m.kind}:swap-self')
        if m.kind in ('EAStorySwap', 'EAItemSwap') and len(m.sources) == 2:
            pool = [s for s, _ in ev.state] if m.kind == 'EAStorySwap' else \
                (dict(ev.state).get(ex.addressed, []) if ex.addressed else [])
            (ta, a), (tb, b) = m.sources
            if ta == 'id' and a in pool and (tb != 'id' or b not in pool):
                classes.append(f'{m.kind}:second-operand-unresolved')
    col.record(ev.case, raised, classes, judge(ev), key=drive.ev_key(ev))


def rejudge(case):
    if 'docs' in case:
        return judge_collection(case)
    if 'history' in case:
        return history.rejudge_history(case, MOD)
    return judge(drive.eval_step(case))


# ---------------------------------------------------- collection (metamorphic) form

def judge_collection(case):
    """Non-strict merge of all docs == non-strict merge of the docs whose own
    merge step did not raise (computed by folding by hand)."""
    import warnings
    from vlib.step import Failure
    from mosromgr.moscollection import MosCollection
    from mosromgr.mostypes import MosFile, RunningOrder
    from mosromgr.exc import MosMergeError
    docs = case['docs']
    with warnings.catch_warnings(record=True):
        warnings.simplefilter('always')
        try:
            mc = MosCollection.from_strings(docs, allow_incomplete=True)
            mc.merge(strict=False)
            full = str(mc)
        except Exception as e:   # containment is C12 / C09; nothing to compare here
            return []
        ro = RunningOrder.from_string(docs[0])
        kept = [docs[0]]
        msgs = sorted((MosFile.from_string(d) for d in docs[1:]), key=lambda x: x.message_id)
        order = sorted(docs[1:], key=lambda d: MosFile.from_string(d).message_id)
        for d in order:
            before = str(ro)
            try:
                ro += MosFile.from_string(d)
                kept.append(d)
            except MosMergeError:
                if str(ro) != before:
                    return [Failure('C05', 'C05|collection|fold-step-not-atomic',
                                    'a failing message changed the running order during the fold')]
        mc2 = MosCollection.from_strings(kept, allow_incomplete=True)
        mc2.merge(strict=False)
        if str(mc2) != full:
            return [Failure('C05', 'C05|collection|non-strict-result-differs',
                            'non-strict merge of all messages differs from the merge of the '
                            'messages that did not raise', str(mc2), full)]
    return []


def shard_collections(args):
    from hypothesis import strategies as st
    from xml.etree import ElementTree as ET
    from vlib import xmlcmp
    from vlib.findings import Collector
    n, seed = args
    col = Collector(PROP)

    @st.composite
    def coll(draw):
        ro = draw(gen.running_order(min_stories=1, max_stories=4, rich=False, simple_ids=True))
        state = xmlcmp.state_of(ET.fromstring(ro['ro_xml']))
        docs = [ro['ro_xml']]
        mid = ro['mid']
        for _ in range(draw(st.integers(2, 7))):
            mid += draw(st.integers(1, 50))
            # messages are drawn against the *initial* state: later ones often fail
            _k, x = draw(gen.message(state, ro['ro_id'], kinds=[k for k in build.ALL_KINDS
                                                               if k not in ('roDelete', 'roReplace')],
                                     faults='heavy', rich=False, mid=mid, degenerate=True))
            docs.append(x)
        return {'docs': docs}

    def one(case):
        fails = judge_collection(case)
        col.record(case, True, ['collection:non-strict-with-failures'], fails)
    drive.run_given(coll(), one, n, seed)
    return col


def shard_malformed(args):
    """Messages that are classifiable but carry an unusual / invalid payload, so that kinds
    which normally cannot fail midway may raise late.  Only atomicity is judged here (the
    exception type for messages that are not schema-shaped is nobody's business)."""
    from vlib import build as B
    from vlib.build import E, T, P
    from vlib.findings import Collector
    col = Collector(PROP)
    sids = ['A', 'B', 'C', 'D']
    ro_xml = gen.ro_with_layout(sids, 'mixed', items_for={'B': ['I0', 'I1', 'I2'], 'C': ['I0']})

    def st(sid, items=()):
        return gen.plain_story(sid, items)
    noid = B.mk_story(None, slug='no id')
    noid_item = B.mk_item(None, slug='no id')
    bodies = []
    for tgt in ('A', 'B', 'D'):
        # a payload element that is a duplicate / invalid, at every position of the payload
        for bad in (lambda: st('C'), lambda: st(tgt), lambda: noid, lambda: st('N1')):
            for pos in range(3):
                pl = [st('N1'), st('N2')]
                pl.insert(pos, bad())
                bodies += [B.story_replace('RO1', tgt, pl), B.ea_story_replace('RO1', tgt, pl),
                           B.story_insert('RO1', tgt, pl), B.ea_story_insert('RO1', tgt, pl)]
        bodies += [B.story_replace('RO1', tgt, []), B.ea_story_replace('RO1', tgt, []),
                   B.story_insert('RO1', tgt, []), B.ea_story_insert('RO1', tgt, [])]
        # roStorySend without a storyBody, with an empty one, with two
        b = B.story_send('RO1', tgt, body=[P('x')])
        b.remove(b.find('storyBody'))
        bodies.append(b)
        b2 = B.story_send('RO1', tgt, body=[P('x')])
        b2.append(E('storyBody', P('second')))
        bodies.append(b2)
        bodies.append(B.story_send('RO1', tgt, body=[]))
    bodies += [B.story_append('RO1', [st('N1'), noid, st('N2')]), B.story_append('RO1', [st('N1'), st('A')]),
               B.story_append('RO1', [])]
    for ref in ('I0', 'I1', 'I2', ''):
        for bad in (lambda: B.mk_item('I2'), lambda: noid_item, lambda: B.mk_item('J1')):
            for pos in range(3):
                pl = [B.mk_item('J1'), B.mk_item('J2')]
                pl.insert(pos, bad())
                bodies += [B.item_insert('RO1', 'B', ref, pl), B.ea_item_insert('RO1', 'B', ref, pl)]
                if ref:
                    bodies += [B.item_replace('RO1', 'B', ref, pl), B.ea_item_replace('RO1', 'B', ref, pl)]
        if ref:
            bodies += [B.item_replace('RO1', 'B', ref, []), B.ea_item_replace('RO1', 'B', ref, [])]
    # metadata / roReplace with odd children
    bodies += [B.metadata_replace('RO1', [T('roChannel', 'x'), E('mosExternalMetadata'), T('roChannel', 'y')]),
               B.metadata_replace('RO1', [E('story', T('storyID', 'A'))]),
               B.ro_replace('RO1', [st('N1'), noid]), B.ro_replace('RO1', [])]
    # roMetadataReplace carrying something that is not metadata, at every position among real metadata
    for odd in (lambda: E('story', T('storyID', 'A')), lambda: E('story', T('storyID', 'N1')), lambda: E('item', T('itemID', 'I0')),
                lambda: E('roCreate'), lambda: E('mosExternalMetadata'), lambda: E('storyBody', P('x'))):
        for pos in range(3):
            pl = [T('roSlug', 'new slug'), T('roEdStart', '2020-01-01T00:00:00')]
            pl.insert(pos, odd())
            bodies.append(B.metadata_replace('RO1', pl))
    for body in bodies:
        case = {'ro_xml': ro_xml, 'msg_xml': B.tostring(B.envelope(body, 3100))}
        try:
            ev = drive.eval_step(case)
        except Exception:
            # the reference model does not cover documents that are not schema-shaped
            col.excluded['malformed message outside the model'] += 1
            continue
        raised = ev.obs.exc is not None
        col.record(case, raised, ['malformed-payload', 'malformed:raised' if raised else 'malformed:accepted'],
                   judge(ev), key=drive.ev_key(ev))
    col.scopes.append('atomicity under unusual payloads: duplicate / ID-less / missing elements at every payload position '
                      'for replace, insert, append, item insert/replace, roStorySend without or with two storyBody, odd metadata')
    return col


def shard_lookalike(args):
    """Multi-ID messages (moves, deletes, swaps) in which one listed ID comes a second time as a
    look-alike - the same text padded with white space - at every position of the list, and as the
    target.  By exact comparison the look-alike names nothing; whatever the tree makes of it, a merge
    that raises must leave the running order as it was."""
    import itertools
    from vlib import build as B
    from vlib.findings import Collector
    col = Collector(PROP)
    sids = ['S1', 'S2', 'S3', 'S4', 'S5']
    iids = ['I1', 'I2', 'I3', 'I4']
    ro_xml = gen.ro_with_layout(sids, 'mixed', items_for={'S2': iids})
    pads = [lambda x: ' ' + x, lambda x: x + ' ', lambda x: x + '\n', lambda x: '\t' + x + ' ']
    bodies = []
    for pad in pads:
        for src in (['S3', 'S4'], ['S4', 'S3', 'S5'], ['S4']):
            for dup, pos in itertools.product(src, range(len(src) + 1)):
                lst = list(src)
                lst.insert(pos, pad(dup))
                bodies += [B.ea_story_move('RO1', 'S1', lst), B.ea_story_move('RO1', '', lst),
                           B.ea_story_delete('RO1', lst), B.story_delete('RO1', lst)]
            bodies += [B.ea_story_move('RO1', pad('S2'), src), B.ea_story_move('RO1', 'S2', src + [pad('S2')]),
                       B.ea_story_move('RO1', pad(src[0]), src), B.story_move('RO1', [src[0], pad(src[0])]),
                       B.story_move('RO1', [pad('S3'), 'S1']),
                       B.ea_story_swap('RO1', src[0], pad(src[0])), B.ea_story_swap('RO1', pad('S1'), 'S3')]
        for src in (['I3', 'I4'], ['I4', 'I2', 'I3'], ['I4']):
            for dup, pos in itertools.product(src, range(len(src) + 1)):
                lst = list(src)
                lst.insert(pos, pad(dup))
                bodies += [B.ea_item_move('RO1', 'S2', 'I1', lst), B.item_move_multiple('RO1', 'S2', lst + ['I1']),
                           B.item_move_multiple('RO1', 'S2', lst + ['']),
                           B.item_delete('RO1', 'S2', lst), B.ea_item_delete('RO1', 'S2', lst)]
            bodies += [B.ea_item_move('RO1', 'S2', pad('I1'), src), B.ea_item_move('RO1', pad('S2'), 'I1', src),
                       B.item_move_multiple('RO1', 'S2', src + [pad(src[0])]),
                       B.ea_item_swap('RO1', 'S2', src[0], pad(src[0])), B.ea_item_swap('RO1', pad('S2'), 'I1', 'I2')]
    for body in bodies:
        case = {'ro_xml': ro_xml, 'msg_xml': B.tostring(B.envelope(body, 3200))}
        ev = drive.eval_step(case)
        raised = ev.obs.exc is not None
        col.record(case, raised, ['look-alike-id', 'look-alike:raised' if raised else 'look-alike:accepted'],
                   judge(ev), key=drive.ev_key(ev))
    col.scopes.append(f'look-alike IDs: {len(bodies)} moves / deletes / swaps with a padded copy of a listed ID at every position')
    return col


def run(tier, seed, procs):
    quick = tier == 'quick'
    N, M, K = (3, 3, 3) if quick else (5, 5, 4)
    tasks = [(MOD, n, lay, K) for n in range(0, N + 1) for lay in ('none', 'mixed', 'anon', 'twins')]
    cols = drive.pool_map(drive.shard_enum_story, tasks, procs)
    refs = ['TGT', '', 'ZZ-unknown-story']
    tasks = [(MOD, m, pl, K, pos, refs) for m in range(0, M + 1) for pl in ('none', 'mixed') for pos in (0, 1)]
    cols += drive.pool_map(drive.shard_enum_item, tasks, procs)
    kw = dict(allow_no_slug=True, kinds=list(build.ALL_KINDS), faults='heavy', rich=True, degenerate=True, min_stories=1)
    shards, per = (8, 400) if quick else (16, 15000)
    cols += drive.pool_map(drive.shard_hyp_steps,
                           [(MOD, per, seed * 1000 + i, kw) for i in range(shards)], procs)
    hs, runs, steps = (4, 25, 20) if quick else (16, 600, 50)
    cols += drive.pool_map(history.shard_history,
                           [(MOD, runs, steps, seed * 1000 + 500 + i, {'faults': 'heavy'})
                            for i in range(hs)], procs)
    cols += drive.pool_map(shard_malformed, [None], 1)
    cols += drive.pool_map(shard_lookalike, [None], 1)
    cs, cn = (4, 60) if quick else (16, 3000)
    cols += drive.pool_map(shard_collections, [(cn, seed * 1000 + 800 + i) for i in range(cs)], procs)
    cols += drive.pool_map(drive.shard_enum_stale, [(MOD, 'story', i, 2 if quick else 3) for i in range(11)], procs)
    cols += drive.pool_map(drive.shard_enum_stale, [(MOD, 'item', i, 2 if quick else 3) for i in range(9)], procs)
    cols += drive.pool_map(history.shard_returning, [MOD], 1)
    return drive.merge_all(PROP, cols)
