"""C05 - a merge that raises leaves the running order exactly as it was."""
from vlib import drive, gen, step, history, build

PROP = 'C05'
MOD = 'checks.c05'
SHRINK_FIELDS = ['ro_xml', 'msg_xml']
RULE = (
    "Cases: the exhaustive story-level and item-level scopes (every kind x every ordered source "
    "tuple in which the unresolvable ID sits at each position k, unknown / blank targets, unknown / "
    "blank / missing story references, identical and blank swap operands), Hypothesis single steps "
    "with fault-heavy and self-referential references on rich running orders, and Hypothesis "
    "histories (failures from reached states); plus non-strict collection merges with any number "
    "and placement of failing messages (metamorphic: result == merge of only the messages that did "
    "not raise).  Oracle: str(ro) immediately before `ro += msg` == str(ro) after the exception "
    "propagated, for any exception type.  Non-trivial = the merge raised; distinct = distinct "
    "(state text, message text) digests.")
ASSUMPTIONS = ['an exception of any type counts (the type itself is C12\'s business)']
MANDATORY = ['raised', 'ItemMoveMultiple:fault-at-k>1', 'EAStoryMove:fault-at-k>1',
             'EAItemMove:fault-at-k>1', 'EAStorySwap:swap-self', 'EAItemSwap:swap-self',
             'EAStorySwap:second-operand-unresolved', 'EAItemSwap:second-operand-unresolved',
             'collection:non-strict-with-failures']


def judge(ev):
    return step.judge_atomic(ev.obs, ev.msg)


def record(col, ev):
    m, ex, obs = ev.msg, ev.ex, ev.obs
    raised = obs.exc is not None
    classes = []
    if raised:
        classes += ['raised', f'{m.kind}:raised:{obs.exc_type}']
    else:
        classes.append('did-not-raise')
    # input-shape classes (independent of how the tree under test reacts)
    if True:
        if m.kind in ('ItemMoveMultiple', 'EAStoryMove', 'EAItemMove') and len(m.sources) >= 2:
            pool = [s for s, _ in ev.state] if m.kind == 'EAStoryMove' else \
                (dict(ev.state).get(ex.addressed, []) if ex.addressed else None)
            if pool is not None:
                bad = [i for i, (t, v) in enumerate(m.sources) if t != 'id' or v not in pool]
                if bad and bad[0] >= 1:
                    classes.append(f'{m.kind}:fault-at-k>1')
        if 'swap-self' in ex.classes:
            classes.append(f'{m.kind}:swap-self')
        if m.kind in ('EAStorySwap', 'EAItemSwap') and len(m.sources) == 2:
            pool = [s for s, _ in ev.state] if m.kind == 'EAStorySwap' else \
                (dict(ev.state).get(ex.addressed, []) if ex.addressed else [])
            (ta, a), (tb, b) = m.sources
            if ta == 'id' and a in pool and (tb != 'id' or b not in pool):
                classes.append(f'{m.kind}:second-operand-unresolved')
    col.record(ev.case, raised, classes, judge(ev), key=drive.ev_key(ev))


def rejudge(case):
    if 'docs' in case:
        return judge_collection(case)
    if 'history' in case:
        return history.rejudge_history(case, MOD)
    return judge(drive.eval_step(case))


# ---------------------------------------------------- collection (metamorphic) form

def judge_collection(case):
    """Non-strict merge of all docs == non-strict merge of the docs whose own
    merge step did not raise (computed by folding by hand)."""
    import warnings
    from vlib.step import Failure
    from mosromgr.moscollection import MosCollection
    from mosromgr.mostypes import MosFile, RunningOrder
    from mosromgr.exc import MosMergeError
    docs = case['docs']
    with warnings.catch_warnings(record=True):
        warnings.simplefilter('always')
        try:
            mc = MosCollection.from_strings(docs, allow_incomplete=True)
            mc.merge(strict=False)
            full = str(mc)
        except Exception as e:   # containment is C12 / C09; nothing to compare here
            return []
        ro = RunningOrder.from_string(docs[0])
        kept = [docs[0]]
        msgs = sorted((MosFile.from_string(d) for d in docs[1:]), key=lambda x: x.message_id)
        order = sorted(docs[1:], key=lambda d: MosFile.from_string(d).message_id)
        for d in order:
            before = str(ro)
            try:
                ro += MosFile.from_string(d)
                kept.append(d)
            except MosMergeError:
                if str(ro) != before:
                    return [Failure('C05', 'C05|collection|fold-step-not-atomic',
                                    'a failing message changed the running order during the fold')]
        mc2 = MosCollection.from_strings(kept, allow_incomplete=True)
        mc2.merge(strict=False)
        if str(mc2) != full:
            return [Failure('C05', 'C05|collection|non-strict-result-differs',
                            'non-strict merge of all messages differs from the merge of the '
                            'messages that did not raise', str(mc2), full)]
    return []


def shard_collections(args):
    from hypothesis import strategies as st
    from xml.etree import ElementTree as ET
    from vlib import xmlcmp
    from vlib.findings import Collector
    n, seed = args
    col = Collector(PROP)

    @st.composite
    def coll(draw):
        ro = draw(gen.running_order(min_stories=1, max_stories=4, rich=False, simple_ids=True))
        state = xmlcmp.state_of(ET.fromstring(ro['ro_xml']))
        docs = [ro['ro_xml']]
        mid = ro['mid']
        for _ in range(draw(st.integers(2, 7))):
            mid += draw(st.integers(1, 50))
            # messages are drawn against the *initial* state: later ones often fail
            _k, x = draw(gen.message(state, ro['ro_id'], kinds=[k for k in build.ALL_KINDS
                                                               if k not in ('roDelete', 'roReplace')],
                                     faults='heavy', rich=False, mid=mid, degenerate=True))
            docs.append(x)
        return {'docs': docs}

    def one(case):
        fails = judge_collection(case)
        col.record(case, True, ['collection:non-strict-with-failures'], fails)
    drive.run_given(coll(), one, n, seed)
    return col


def run(tier, seed, procs):
    quick = tier == 'quick'
    N, M, K = (3, 3, 3) if quick else (5, 5, 4)
    tasks = [(MOD, n, lay, K) for n in range(0, N + 1) for lay in ('none', 'mixed')]
    cols = drive.pool_map(drive.shard_enum_story, tasks, procs)
    refs = ['TGT', '', 'ZZ-unknown-story']
    tasks = [(MOD, m, pl, K, pos, refs) for m in range(0, M + 1) for pl in ('none', 'mixed') for pos in (0, 1)]
    cols += drive.pool_map(drive.shard_enum_item, tasks, procs)
    kw = dict(kinds=list(build.ALL_KINDS), faults='heavy', rich=True, degenerate=True, min_stories=1)
    shards, per = (8, 400) if quick else (16, 15000)
    cols += drive.pool_map(drive.shard_hyp_steps,
                           [(MOD, per, seed * 1000 + i, kw) for i in range(shards)], procs)
    hs, runs, steps = (4, 25, 20) if quick else (16, 600, 50)
    cols += drive.pool_map(history.shard_history,
                           [(MOD, runs, steps, seed * 1000 + 500 + i, {'faults': 'heavy'})
                            for i in range(hs)], procs)
    cs, cn = (4, 60) if quick else (16, 3000)
    cols += drive.pool_map(shard_collections, [(cn, seed * 1000 + 800 + i) for i in range(cs)], procs)
    cols += drive.pool_map(drive.shard_enum_stale, [(MOD, 'story', i, 2 if quick else 3) for i in range(11)], procs)
    cols += drive.pool_map(drive.shard_enum_stale, [(MOD, 'item', i, 2 if quick else 3) for i in range(9)], procs)
    return drive.merge_all(PROP, cols)
