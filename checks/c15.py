"""C15 - read accessors never raise and agree with the XML in every reachable state."""
import itertools
from xml.etree import ElementTree as ET

from vlib import env, drive, gen, history, build as B, access, xmlcmp
from vlib.access import call
from vlib.findings import Collector, h64
from vlib.step import Failure

from mosromgr.mostypes import RunningOrder

PROP = 'C15'
MOD = 'checks.c15'
SHRINK_FIELDS = ['ro_xml', 'msg_xml']
RULE = (
    "Cases: (a) exhaustive - running orders of 1-3 stories where each story independently carries "
    "each of the 11 timing shapes (no metadata, metadata without payload, empty payload, present-but-empty StoryDuration / TextTime / StoryStarted / StoryEnded tags, "
    "StoryDuration, TextTime, MediaTime, TextTime+MediaTime, all three) x roEdStart in {absent, "
    "empty, set}; items with every subset of {itemSlug, objID, mosID, objType} and every note shape; "
    "(b) Hypothesis rich running orders with any subset of the optional data per story/item; (c) "
    "Hypothesis histories (states reached by inserting / appending / replacing / re-sending stories "
    "with and without timing, deleting and moving).  Oracle: every documented accessor of "
    "RunningOrder (14), Story (10) and Item (7) returns without raising - on the running order and on the "
    "carried Story / Item objects that the merged MESSAGE object exposes (stories, items, the re-sent story); story IDs, slugs, item IDs, "
    "item slug/type/object_id/mos_id/note and the per-story duration equal direct ElementTree reads of "
    "ro.xml, in document order; absent optional data gives None.  Non-trivial = some but not all "
    "stories carry a duration, or the state is the result of a merge.")
ASSUMPTIONS = ['every story has a storyID and every item an itemID; durations are finite decimal literals, '
               'times ISO-8601 (the stated domain)',
               'offsets/start times after a story of unknown duration are not compared (unspecified), only required not to raise']
MANDATORY = ['mixed-timing', 'post-merge', 'no-timing-at-all', 'metadata-without-payload',
             'roEdStart:absent', 'roEdStart:empty', 'item-note', 'exhaustive-timing-shapes']


def check(ro, where='ro', base='roCreate'):
    fails = []
    # an independent parse of the serialised document, not the library's own tree
    root = ET.fromstring(str(ro))
    rc = root.find(base)
    vals = {}
    for name in access.RO_ACCESSORS:
        ok, v = call(ro, name, fails, PROP, 'RunningOrder')
        if ok:
            vals[name] = v
    xs = [c for c in rc if c.tag == 'story']
    stories = vals.get('stories')
    if stories is None:
        return fails

    def mism(what, exp, got):
        fails.append(Failure(PROP, f'C15|{what}|disagrees-with-xml', f'{what}: library {got!r}, XML {exp!r}', exp, got))
    if len(stories) != len(xs):
        mism('len(ro.stories)', len(xs), len(stories))
        return fails
    if 'ro_slug' in vals and vals['ro_slug'] != access._text(rc, 'roSlug'):
        mism('ro.ro_slug', access._text(rc, 'roSlug'), vals['ro_slug'])
    if 'completed' in vals and vals['completed'] != (root.find('mosromgrmeta') is not None):
        mism('ro.completed', root.find('mosromgrmeta') is not None, vals['completed'])
    if access._text(rc, 'roEdStart') is None and vals.get('start_time', None) is not None:
        mism('ro.start_time', None, vals['start_time'])
    if access._text(rc, 'roEdStart') is not None and 'start_time' in vals:
        try:
            want = access.x_time(access._text(rc, 'roEdStart').strip())
        except ValueError:
            want = Ellipsis          # a form this oracle does not read: not compared
        if want is not Ellipsis and not access.tclose(vals['start_time'], want):
            mism('ro.start_time', want, vals['start_time'])
    all_script, all_body = [], []
    for k, (st, x) in enumerate(zip(stories, xs)):
        sv = {}
        for name in access.STORY_ACCESSORS:
            ok, v = call(st, name, fails, PROP, 'Story')
            if ok:
                sv[name] = v
        if 'id' in sv and sv['id'] != access._text(x, 'storyID'):
            mism('Story.id', access._text(x, 'storyID'), sv['id'])
        if 'slug' in sv and sv['slug'] != access._text(x, 'storySlug'):
            mism('Story.slug', access._text(x, 'storySlug'), sv['slug'])
        if 'duration' in sv and not access.close(sv['duration'], access.x_duration(x)):
            mism('Story.duration', access.x_duration(x), sv['duration'])
        if 'xml' in sv and (sv['xml'] is None or xmlcmp.canon(sv['xml']) != xmlcmp.canon(x)):
            mism('Story.xml', 'the story element', 'another element')
        # script / body against the paragraphs and items of the element (same oracle as C17)
        from checks.c17 import _body_eq, _show, _showlib
        if 'script' in sv and sv['script'] != access.x_script(x):
            mism('Story.script', access.x_script(x), sv['script'])
        if 'body' in sv and not _body_eq(sv['body'], access.x_body(x)):
            mism('Story.body', _show(access.x_body(x)), _showlib(sv['body']))
        all_script += access.x_script(x)
        all_body += access.x_body(x)
        xi = [c for c in x if c.tag == 'item']
        items = sv.get('items')
        if items is None:
            if 'items' in sv:
                mism('Story.items', f'{len(xi)} items', None)
            continue
        if len(items) != len(xi):
            mism('len(Story.items)', len(xi), len(items))
            continue
        for it, xe in zip(items, xi):
            iv = {}
            for name in access.ITEM_ACCESSORS:
                ok, v = call(it, name, fails, PROP, 'Item')
                if ok:
                    iv[name] = v
            for name, exp in (('id', access._text(xe, 'itemID')), ('slug', access._text(xe, 'itemSlug')),
                              ('type', access._text(xe, 'objType')), ('object_id', access._text(xe, 'objID')),
                              ('mos_id', access._text(xe, 'mosID')), ('note', access.x_note(xe))):
                if name in iv and iv[name] != exp:
                    mism(f'Item.{name}', exp, iv[name])
    from checks.c17 import _body_eq, _show, _showlib
    if 'script' in vals and vals['script'] != all_script:
        mism('ro.script', all_script, vals['script'])
    if 'body' in vals and not _body_eq(vals['body'], all_body):
        mism('ro.body', _show(all_body), _showlib(vals['body']))
    return fails


def _classes(ro_xml):
    root = ET.fromstring(ro_xml)
    rc = root.find('roCreate')
    xs = [c for c in rc if c.tag == 'story']
    durs = [access.x_duration(x) for x in xs]
    cl = []
    if xs and any(d is None for d in durs) and any(d is not None for d in durs):
        cl.append('mixed-timing')
    if xs and all(d is None for d in durs):
        cl.append('no-timing-at-all')
    if any(x.find('mosExternalMetadata') is not None and x.find('mosExternalMetadata').find('mosPayload') is None
           for x in xs):
        cl.append('metadata-without-payload')
    es = rc.find('roEdStart')
    cl.append('roEdStart:absent' if es is None else 'roEdStart:empty' if es.text is None else 'roEdStart:set')
    if any(access.x_note(i) is not None for x in xs for i in x if i.tag == 'item'):
        cl.append('item-note')
    return cl


def check_message_objects(mo):
    """Story / Item objects exposed by a message object: every accessor returns without
    raising, IDs / slugs / item fields agree with the element they wrap."""
    from checks.c20 import ACCESS
    fails = []
    kind = type(mo).__name__
    for role, name in sorted(ACCESS.get(kind, {}).items()):
        # only elements the message CARRIES are stories / items with content; target and
        # source accessors hand out reference stubs (an ID, no content) - C20's business
        if not (role == 'payload' or (kind == 'StorySend' and role == 'story')):
            continue
        ok, v = call(mo, name, fails, PROP, kind)
        if not ok or v is None:
            continue
        for obj in (list(v) if isinstance(v, (list, tuple)) else [v]):
            is_story = type(obj).__name__ == 'Story'
            vals = {}
            for acc in (access.STORY_ACCESSORS if is_story else access.ITEM_ACCESSORS):
                ok2, val = call(obj, acc, fails, PROP, f'{kind}.{name}->{type(obj).__name__}')
                if ok2:
                    vals[acc] = val
            x = vals.get('xml')
            if x is None:
                continue
            if is_story:
                if vals.get('slug', None) != access._text(x, 'storySlug'):
                    fails.append(Failure(PROP, f'C15|{kind}.{name}|Story.slug|disagrees-with-xml',
                                         f'{vals.get("slug")!r} vs {access._text(x, "storySlug")!r}'))
                its = vals.get('items')
                if its is not None and [i.id for i in its] != [access._text(i, 'itemID') for i in x if i.tag == 'item']:
                    fails.append(Failure(PROP, f'C15|{kind}.{name}|Story.items|disagrees-with-xml', 'item IDs differ'))
                if 'duration' in vals and not access.close(vals['duration'], access.x_duration(x)):
                    fails.append(Failure(PROP, f'C15|{kind}.{name}|Story.duration|disagrees-with-xml',
                                         f'{vals["duration"]!r} vs {access.x_duration(x)!r}'))
            else:
                for acc, exp in (('slug', access._text(x, 'itemSlug')), ('type', access._text(x, 'objType')),
                                 ('object_id', access._text(x, 'objID')), ('mos_id', access._text(x, 'mosID')),
                                 ('note', access.x_note(x))):
                    if acc in vals and vals[acc] != exp:
                        fails.append(Failure(PROP, f'C15|{kind}.{name}|Item.{acc}|disagrees-with-xml', f'{vals[acc]!r} vs {exp!r}'))
    return fails


def judge(ev):
    if ev.obs.ro is None:
        return []
    fails = check(ev.obs.ro)
    if 'history' in ev.case:
        # Story objects kept from the previous state of this history describe their element as it is now
        from checks import c17
        fails += [f for f in c17.check_kept(ev.obs.ro, PROP) if f.sig.startswith('C15|')]
    if ev.obs.msg is not None:
        fails += check_message_objects(ev.obs.msg)
        if type(ev.obs.msg).__name__ == 'RunningOrderReplace':
            # a RunningOrderReplace IS a RunningOrder (documented subclass): its own
            # accessors read its own document, whose body is the roReplace element
            for f in check(ev.obs.msg, base='roReplace'):
                f.sig = f.sig.replace('C15|', 'C15|roReplace-object|', 1)
                fails.append(f)
    return fails


def record(col, ev):
    if ev.obs.ro is None:
        col.record(ev.case, False, ['unclassified'], [], key=0)
        return
    cl = _classes(ev.obs.after) + ['post-merge', f'after:{ev.obs.cls_name}']
    col.record(ev.case, True, cl, judge(ev), key=drive.ev_key(ev))
    if 'history' not in ev.case:
        # the pristine document as well
        pristine = {'ro_xml': ev.case['ro_xml']}
        cl0 = _classes(ev.case['ro_xml'])
        col.record(pristine, 'mixed-timing' in cl0, cl0 + ['pristine'], rejudge(pristine),
                   key=h64(ev.case['ro_xml']))


def rejudge(case):
    if 'history' in case:
        return history.rejudge_history(case, MOD)
    if 'msg_xml' not in case:
        return check(RunningOrder.from_string(case['ro_xml']))
    return judge(drive.eval_step(case))


TIMING_SHAPES = {
    'absent': lambda: None, 'nopayload': lambda: B.timing_block({}, payload=False),
    'empty': lambda: B.timing_block({}), 'dur': lambda: B.timing_block({'StoryDuration': '4.5'}),
    'tt': lambda: B.timing_block({'TextTime': '2'}), 'mt': lambda: B.timing_block({'MediaTime': '3'}),
    'tt+mt': lambda: B.timing_block({'TextTime': '2', 'MediaTime': '3'}),
    'all': lambda: B.timing_block({'MediaTime': '3', 'StoryDuration': '9', 'TextTime': '2',
                                   'StoryStarted': '2020-01-01T12:31:00', 'StoryEnded': '2020-01-01T12:32:00'}),
}
# present-but-empty timing tags (a field the newsroom system has not filled in yet)
TIMING_SHAPES.update({
    'empty-dur': lambda: B.timing_block({'StoryDuration': None, 'TextTime': '2'}),
    'empty-tt': lambda: B.timing_block({'TextTime': None, 'MediaTime': '3'}),
    'empty-times': lambda: B.timing_block({'StoryDuration': '4', 'StoryStarted': None, 'StoryEnded': None}),
})
NOTES = [None, ('note', 'a note'), ('note', ''), ('nested', 'n'), ('other', 'cue'), ('empty', '')]


def shard_exhaustive(args):
    col = Collector(PROP)
    n = args
    opt = list(itertools.product([None, 'v'], repeat=4))
    k = 0
    for shapes in itertools.product(TIMING_SHAPES, repeat=n):
        for ed in (None, '', '2020-01-01T12:30:00'):
            stories = []
            for si, sh in enumerate(shapes):
                items = []
                for ii in range(2):
                    slug, oid, mid, typ = opt[k % len(opt)]
                    note = NOTES[k % len(NOTES)]
                    k += 1
                    items.append(B.mk_item(f'I{ii}', slug=slug, obj_id=oid, mos_id=mid, obj_type=typ, note=note,
                                           md_payload=(k % 7 != 0)))
                stories.append(B.mk_story(f'S{si}', slug=None if si % 2 else 'slug', timing=TIMING_SHAPES[sh](),
                                          body=[B.P('x')] + items))
            ro_xml = B.tostring(B.envelope(B.ro_create('RO1', stories, ed_start=ed), 10))
            case = {'ro_xml': ro_xml}
            cl = _classes(ro_xml) + ['exhaustive-timing-shapes']
            col.record(case, 'mixed-timing' in cl, cl, rejudge(case), key=h64(ro_xml))
    col.scopes.append(f'accessors: {n} stories x 11 timing shapes each x 3 roEdStart shapes; item option subsets cycled')
    return col


def run(tier, seed, procs):
    quick = tier == 'quick'
    cols = drive.pool_map(shard_exhaustive, [1, 2] + ([3] if not quick else []), procs)
    kw = dict(kinds=list(gen.STORY_KINDS) + ['roReplace', 'roItemInsert', 'roItemReplace'], faults='none',
              rich=True, timing_mode='any', min_stories=1)
    shards, per = (8, 300) if quick else (16, 12000)
    cols += drive.pool_map(drive.shard_hyp_steps,
                           [(MOD, per, seed * 1000 + i, kw) for i in range(shards)], procs)
    hs, runs, steps = (8, 25, 20) if quick else (16, 600, 50)
    cols += drive.pool_map(history.shard_history,
                           [(MOD, runs, steps, seed * 1000 + 500 + i, {'faults': 'none', 'degenerate': False})
                            for i in range(hs)], procs)
    return drive.merge_all(PROP, cols)
