"""C06 - nothing named by a message is skipped silently."""
import itertools

from vlib import drive, gen, step, history, build as B
from vlib.findings import Collector

PROP = 'C06'
MOD = 'checks.c06'
SHRINK_FIELDS = ['ro_xml', 'msg_xml']
RULE = (
    "Cases: (a) exhaustive subsets - for each of the 7 warn-and-continue kinds (roStorySend, "
    "roStoryDelete, roItemDelete, roStoryInsert, roElementAction story DELETE / item DELETE / story "
    "INSERT) a message naming n in 1..5 distinct elements with EVERY subset of them unresolvable "
    "(unknown IDs; for inserts: duplicates of existing stories), on running orders in 3 metadata "
    "layouts; (b) the exhaustive story/item scopes of C01/C02 (all other kinds fully resolvable must "
    "be warning-free, unknown references must raise or warn); (c) Hypothesis single steps and "
    "histories with faulty references on rich running orders.  Oracle: when the merge does not "
    "raise, the recorded MosRoMgrWarning categories are exactly the model's multiset (one "
    "StoryNotFound/ItemNotFound/DuplicateStory warning per missing/duplicate element) AND the "
    "resulting state is the model's with every remaining element applied; a step that warned is run again with warnings escalated to errors and must then raise.  Non-trivial = >= 2 named "
    "elements of which a proper non-empty subset is unresolvable/duplicate, or a multi-ID "
    "roElementAction DELETE/MOVE list; distinct = distinct (state text, message text) digests."
    ' Round 11: history steps re-using an earlier messageID (a different message must not be taken for a re-send); returning-element histories.')
ASSUMPTIONS = [
    'repeated IDs in a delete list: every occurrence of an ID that is not in the running order needs its own '
    'warning; a repeated occurrence of an ID that was there may or may not be reported.  Repeated / '
    'self-referential IDs in moves and swaps are ambiguous and excluded (counted)',
    'a blank ID in a list may or may not produce a not-found warning (both accepted)',
    'warning text is not inspected, only category and count',
]
MANDATORY = ['mixed-routes', 'StoryDelete:repeated-id-in-list', 'EAItemDelete:repeated-id-in-list', 'StoryDelete:partial-miss', 'EAStoryDelete:partial-miss', 'ItemDelete:partial-miss',
             'EAItemDelete:partial-miss', 'StoryInsert:duplicate-skipped',
             'EAStoryInsert:duplicate-skipped', 'EAStoryDelete:multi-id-delete',
             'EAItemDelete:multi-id-delete', 'EAStoryMove:multi-source', 'subset-enumeration',
             'fully-applied']


def judge(ev):
    fails = step.judge_reporting(ev.obs, ev.ex, ev.msg, ev.state)
    if ev.obs.exc is None and ev.obs.parse_exc is None and sum(ev.obs.warns.values()) > 0:
        # the library chose to warn and carry on.  With warnings escalated to errors (python -W error)
        # the same step must still REPORT: the escalated warning, or a merge error, leaves the merge
        o2 = step.run_step(ev.obs.before, ev.msg.text, filt='error')
        if o2.parse_exc is None and o2.exc is None:
            fails.append(step.Failure(PROP, f'C06|{ev.msg.kind}|silent-under-error-filter',
                                      f'{ev.msg.kind}: warns {dict(ev.obs.warns)} under the default filter, but '
                                      "with warnings.simplefilter('error') nothing is raised and nothing is "
                                      'reported', 'an exception', None))
    return fails


def record(col, ev, extra=()):
    m, ex = ev.msg, ev.ex
    if m.level not in ('story', 'item'):
        col.record(ev.case, False, [f'other-level:{m.level}'], judge(ev), key=0)
        return
    if ex.degenerate:
        col.excluded['repeated/self-referential IDs (ambiguous)'] += 1
    classes = [f'{m.kind}:{c}' for c in ex.classes] + list(extra)
    if ex.resolves and not ex.degenerate and ev.obs.exc is None:
        classes.append('fully-applied')
    nontrivial = (any(c in ex.classes for c in ('partial-miss', 'duplicate-skipped'))
                  or (m.kind in ('EAStoryDelete', 'EAItemDelete', 'EAStoryMove', 'EAItemMove')
                      and len(m.sources) >= 2))
    col.record(ev.case, nontrivial and not ex.degenerate, classes, judge(ev), key=drive.ev_key(ev))


def rejudge(case):
    if 'history' in case:
        return history.rejudge_history(case, MOD)
    return judge(drive.eval_step(case))


def shard_subsets(args):
    """Every subset of n named elements unresolvable / duplicate."""
    n, layout = args
    col = Collector(PROP)
    sids = [f'S{i}' for i in range(5)]
    iids = [f'I{i}' for i in range(5)]
    ro_xml = gen.ro_with_layout(sids, layout, items_for={'S1': iids, 'S3': iids})

    def env(body):
        return B.tostring(B.envelope(body, 2000))
    for idx in itertools.permutations(range(5), n) if n <= 2 else itertools.combinations(range(5), n):
        for miss in itertools.product([False, True], repeat=n):
            s_ids = [f'U{i}' if bad else sids[i] for i, bad in zip(idx, miss)]
            i_ids = [f'V{i}' if bad else iids[i] for i, bad in zip(idx, miss)]
            msgs = [B.story_delete('RO1', s_ids), B.ea_story_delete('RO1', s_ids),
                    B.item_delete('RO1', 'S1', i_ids), B.ea_item_delete('RO1', 'S3', i_ids)]
            # inserts: "bad" = duplicate of an existing story, good = new story
            pl = lambda: [gen.plain_story(sids[i] if bad else f'N{i}') for i, bad in zip(idx, miss)]  # noqa
            for tgt in (sids[idx[0]], 'S4', ''):
                msgs.append(B.story_insert('RO1', tgt, pl()))
                msgs.append(B.ea_story_insert('RO1', tgt, pl()))
            if n == 1:
                body = [B.P('x')]
                msgs.append(B.story_send('RO1', s_ids[0], body=body))
            if n <= 3:
                # the same ID named twice (first and last position)
                msgs += [B.story_delete('RO1', s_ids + s_ids[:1]), B.ea_story_delete('RO1', s_ids + s_ids[:1]),
                         B.item_delete('RO1', 'S1', i_ids + i_ids[:1]), B.ea_item_delete('RO1', 'S3', i_ids + i_ids[:1])]
            for body in msgs:
                ev = drive.eval_step({'ro_xml': ro_xml, 'msg_xml': env(body)})
                record(col, ev, extra=['subset-enumeration'])
    col.scopes.append(f'subsets: n={n} named elements, every subset unresolvable/duplicate, layout={layout}')
    return col


def shard_routes(args):
    """Directed three-step histories that mix the two documented routes - msg.merge(ro) and ro += msg -
    on one live running order: (1) an insert through one route, (2) a change of the story set through
    either route, (3) an insert through the other route carrying a duplicate of what step 1/2 added, a
    story that step 2 deleted, and a new one.  Whatever the running order caches between steps must not
    show: duplicates are skipped WITH a warning, everything else is inserted."""
    import itertools
    col = Collector(PROP)
    sids = ['S0', 'S1', 'S2']
    ro_xml = gen.ro_with_layout(sids, 'mixed', items_for={'S1': ['I0']})

    def env(body, mid):
        return B.tostring(B.envelope(body, mid))
    first = [env(B.story_insert('RO1', 'S1', [gen.plain_story('N0')]), 2001),
             env(B.ea_story_insert('RO1', 'S2', [gen.plain_story('N0')]), 2002),
             env(B.story_append('RO1', [gen.plain_story('N0')]), 2003)]
    second = [env(B.story_delete('RO1', ['S0']), 2010), env(B.ea_story_delete('RO1', ['S0']), 2011),
              env(B.story_append('RO1', [gen.plain_story('N1')]), 2012),
              env(B.story_replace('RO1', 'S0', [gen.plain_story('N1')]), 2013),
              env(B.ro_replace('RO1', [gen.plain_story('S1'), gen.plain_story('N1')]), 2014)]
    third = [env(B.story_insert('RO1', 'S1', [gen.plain_story('N0'), gen.plain_story('S0'), gen.plain_story('N2')]), 2020),
             env(B.ea_story_insert('RO1', 'S1', [gen.plain_story('N1'), gen.plain_story('S0'), gen.plain_story('N2')]), 2021),
             env(B.story_insert('RO1', '', [gen.plain_story('S0'), gen.plain_story('N0')]), 2022)]
    n = 0
    for a, b, c in itertools.product(first, second, third):
        for ra, rb, rc in itertools.product(('merge', 'add'), repeat=3):
            if ra == rb == rc:
                continue
            for ev in history.replay_history([ro_xml, a, b, c], routes={a: ra, b: rb, c: rc}):
                record(col, ev, extra=['mixed-routes'])
            n += 1
    col.scopes.append(f'mixed routes: {n} three-step histories, every assignment of msg.merge(ro) / ro += msg to the steps')
    return col


def run(tier, seed, procs):
    quick = tier == 'quick'
    nmax = 4 if quick else 5
    tasks = [(n, lay) for n in range(1, nmax + 1) for lay in ('none', 'before', 'mixed')]
    cols = drive.pool_map(shard_subsets, tasks, procs)
    cols += drive.pool_map(shard_routes, [None], 1)
    N, M, K = (3, 3, 2) if quick else (5, 5, 3)
    cols += drive.pool_map(drive.shard_enum_story,
                           [(MOD, n, lay, K) for n in range(0, N + 1) for lay in ('none', 'mixed', 'anon', 'twins')], procs)
    refs = ['TGT', '', 'ZZ-unknown-story']
    cols += drive.pool_map(drive.shard_enum_item,
                           [(MOD, m, pl, K, pos, refs) for m in range(0, M + 1) for pos in (0, 1) for pl in ('mixed', 'anon-item', 'twin-items')], procs)
    kw = dict(allow_no_slug=True, kinds=gen.STORY_KINDS + gen.ITEM_KINDS + gen.META_KINDS[:3], faults='some', rich=True, degenerate=True,
              min_stories=1)
    shards, per = (8, 400) if quick else (16, 15000)
    cols += drive.pool_map(drive.shard_hyp_steps,
                           [(MOD, per, seed * 1000 + i, kw) for i in range(shards)], procs)
    hs, runs, steps = (4, 25, 20) if quick else (16, 600, 50)
    cols += drive.pool_map(history.shard_history,
                           [(MOD, runs, steps, seed * 1000 + 500 + i,
                             {'faults': 'some', 'degenerate': False}) for i in range(hs)], procs)
    cols += drive.pool_map(drive.shard_enum_stale, [(MOD, 'story', i, 2 if quick else 3) for i in range(11)], procs)
    cols += drive.pool_map(drive.shard_enum_stale, [(MOD, 'item', i, 2 if quick else 3) for i in range(9)], procs)
    cols += drive.pool_map(history.shard_returning, [MOD], 1)
    return drive.merge_all(PROP, cols)
