"""C18 - file, string, bytes and S3 sources are interchangeable; readers are faithful."""
import os
import shutil
import warnings
from xml.etree import ElementTree as ET

from hypothesis import strategies as st

from vlib import env, drive, gen, colgen, fakes3, build as B, xmlcmp
from vlib.findings import Collector, h64
from vlib.step import Failure

import mosromgr.utils.s3 as s3mod
from mosromgr.moscollection import MosCollection, MosReader
from mosromgr.mostypes import MosFile

PROP = 'C18'
MOD = 'checks.c18'
RULE = (
    "Cases: (a) Hypothesis documents of every kind (roCreate + all 25 message kinds) with non-ASCII "
    "and markup-significant content, with or without a UTF-8 XML declaration (and, for the byte-oriented "
    "sources, in a declared ISO-8859-1 or UTF-16 encoding), read from {file, str, bytes, fake S3 object}; (b) Hypothesis collections built through from_strings / from_files / "
    "from_s3 over the same contents; (c) Hypothesis bucket listings: 0-12 keys under several "
    "prefixes, with and without the suffix (also suffix in the middle of the key, custom suffix), "
    "page sizes 1..n+1, prefix '' / None / non-matching.  The fake S3 (vlib/fakes3.py) is injected "
    "by assigning the lazy handle's attributes, so the real get_mos_files / get_file_contents / "
    "from_s3 bodies run.  Oracle: same class and same str() from all four sources, also when "
    "constructed through the concrete class itself or (roElementAction) through ElementAction.from_*; the three "
    "constructors give the same reader IDs and the same merged str(mc); each MosReader reports "
    "message_id / ro_id / mos_type equal to those of the object it restores, and restores a new "
    "object with equal str() on every access - also after previously restored objects were modified "
    "(tree edited, roDelete merged); get_mos_files == the keys with the prefix and the "
    "suffix in S3 (UTF-8 binary) order, across all pages.  Non-trivial = non-ASCII content, or >= 2 "
    "result pages, or a key lacking the suffix."
    " Also: bucket names starting with 's' / '3' with decoy buckets, S3 keys with '+', '%XX', blanks and non-ASCII with decoy objects under the decoded names, zero-byte objects in listings, a prefix equal to a full key, str sources that still carry a foreign encoding declaration, CDATA sections, comments inside the root, padded roIDs, file names with shell metacharacters (and matching siblings), documents supplied in another order than their message IDs."
    ' Round 11: a quarter of the constructor-agreement collections hold two different documents sharing a messageID (compared on which messages each constructor holds); ncsID headers differ between documents.')
ASSUMPTIONS = ['the fake S3 models the ListObjects contract the code relies on: server-side prefix filter, '
               'binary key order, pages of >= 1 key, no Contents entry only when nothing matches']
MANDATORY = ['source:file', 'source:bytes', 'source:s3', 'xml-declaration', 'non-ascii', 'encoding:latin1', 'encoding:utf16', 'encoding:utf16be', 'pages>=2',
             'key-without-suffix', 'prefix:none', 'prefix:empty', 'listing:empty', 'reader:s3', 'reader:file',
             'constructors-agree']


def _work():
    d = os.path.join(env.WORK_DIR, f'c18-{os.getpid()}')
    os.makedirs(d, exist_ok=True)
    return d


def judge_doc(case):
    text = case['doc']
    fails = []
    outs = {}
    path = os.path.join(_work(), 'd.mos.xml')
    raw = text.encode('utf-8')
    if case.get('enc'):
        from checks.c08 import encoded
        raw = encoded(text, case['enc'])      # declared ISO-8859-1 / UTF-16 bytes
    with open(path, 'wb') as f:
        f.write(raw)
    text_str = text
    if case.get('enc') and case.get('str_decl'):
        # the str a caller gets from open(path, encoding=...).read(): it still carries the declaration
        from checks.c08 import ENCODINGS
        body = text[text.index('?>') + 2:] if text.startswith('<?xml') else text
        text_str = f'<?xml version="1.0" encoding="{ENCODINGS[case["enc"]][0]}"?>' + body
    s3key = case.get('s3key', 'k/d.mos.xml')
    # decoys under the names a URL-decoding / normalising client would ask for instead
    from urllib.parse import unquote, unquote_plus
    objs = {k: b'<mos><messageID>1</messageID><roDelete><roID>decoy</roID></roDelete></mos>'
            for k in {unquote(s3key), unquote_plus(s3key), s3key.replace(' ', '+'), s3key.strip()} if k != s3key}
    objs[s3key] = raw
    bucket = case.get('bucket', 'b')
    # decoy buckets under the names a prefix-stripping client would ask for instead
    decoy = {k: b'<mos><messageID>1</messageID><roDelete><roID>decoy</roID></roDelete></mos>' for k in objs}
    buckets = {n: dict(decoy) for n in {bucket.lstrip('s3:/'), bucket[1:], bucket.lower(), 'b'} if n and n != bucket}
    buckets[bucket] = objs
    fake = fakes3.FakeS3(buckets)
    with warnings.catch_warnings():
        warnings.simplefilter('ignore')
        for name, fn in (('str', lambda: MosFile.from_string(text_str)),
                         ('bytes', lambda: MosFile.from_string(raw)),
                         ('file', lambda: MosFile.from_file(path)),
                         ('file:pathlib', lambda: MosFile.from_file(__import__('pathlib').Path(path))),
                         ('bytearray', lambda: MosFile.from_string(bytearray(raw))),
                         ('s3', lambda: MosFile.from_s3(bucket, s3key))):
            try:
                with fake:
                    mo = fn()
                outs[name] = (type(mo).__name__, str(mo))
            except Exception as e:
                outs[name] = (f'EXC {type(e).__name__}', '')
        if len(set(outs.values())) > 1:
            fails.append(Failure(PROP, 'C18|sources-disagree|' + ','.join(
                f'{k}={v[0]}' for k, v in sorted(outs.items()) if v != outs['str']),
                f'the same content gives different objects: { {k: v[0] for k, v in outs.items()} }'
                + ('' if len({v[0] for v in outs.values()}) > 1 else ' (same class, different serialisation)'),
                outs['str'], [v for v in outs.values() if v != outs['str']][0]))
        # the same through the other documented entry points: the concrete class itself and,
        # for roElementAction documents, the ElementAction base class (which classifies)
        if not outs['str'][0].startswith('EXC'):
            import mosromgr.mostypes as mt
            entry = [getattr(mt, outs['str'][0])]
            if outs['str'][0].startswith('EA'):
                entry.append(mt.ElementAction)
            for cls in entry:
                for name, fn in (('str', lambda: cls.from_string(text_str)), ('bytes', lambda: cls.from_string(raw)),
                                 ('file', lambda: cls.from_file(path)), ('s3', lambda: cls.from_s3(bucket, s3key))):
                    try:
                        with fake:
                            mo = fn()
                        got = (type(mo).__name__, str(mo))
                    except Exception as e:
                        got = (f'EXC {type(e).__name__}', '')
                    if got != outs['str']:
                        fails.append(Failure(PROP, f'C18|entry-point:{cls.__name__ if cls is mt.ElementAction else "concrete-class"}'
                                                   f'|{name}|differs-from-MosFile',
                                             f'{cls.__name__}.from_{name if name != "bytes" else "string(bytes)"} gives {got[0]}, '
                                             f'MosFile.from_string gives {outs["str"][0]}', outs['str'], got))
        # readers
        if not outs['str'][0].startswith('EXC'):
            for name, mk in (('string', lambda: MosReader.from_string(text_str)),
                             ('file', lambda: MosReader.from_file(path)),
                             ('s3', lambda: MosReader.from_s3(bucket, s3key))):
                try:
                    with fake:
                        mr = mk()
                        a, b = mr.mos_object, mr.mos_object
                        if a is b:
                            fails.append(Failure(PROP, f'C18|reader:{name}|same-object-restored-twice',
                                                 'MosReader.mos_object returned the same object twice'))
                        if type(a) is not mr.mos_type or a.message_id != mr.message_id or a.ro_id != mr.ro_id:
                            fails.append(Failure(PROP, f'C18|reader:{name}|metadata-differs-from-restored-object',
                                                 f'reader says ({mr.mos_type.__name__}, {mr.message_id}, {mr.ro_id!r}), '
                                                 f'restored object is ({type(a).__name__}, {a.message_id}, {a.ro_id!r})'))
                        if str(a) != outs['str'][1] or str(b) != outs['str'][1]:
                            fails.append(Failure(PROP, f'C18|reader:{name}|restored-object-differs',
                                                 'restored object serialises differently from the original content',
                                                 outs['str'][1], str(a)))
                        # "fresh": whatever happens to one restored object must not show
                        # in the next one (tree edited through the public .xml, and a
                        # roDelete merged into a restored running order)
                        for el in list(a.xml.iter()):
                            el.append(ET.Element('verif-marker'))
                            el.text = 'changed'
                        if type(b).__name__ == 'RunningOrder' and not b.completed:
                            try:
                                b += MosFile.from_string(B.tostring(B.envelope(B.ro_delete(b.ro_id), 99999999)))
                            except Exception:
                                pass
                        c = mr.mos_object
                        if str(c) != outs['str'][1]:
                            fails.append(Failure(PROP, f'C18|reader:{name}|restored-object-not-fresh',
                                                 'an object restored after an earlier restored object was '
                                                 'modified differs from the original content',
                                                 outs['str'][1], str(c)))
                except Exception as e:
                    fails.append(Failure(PROP, f'C18|reader:{name}|raised-{type(e).__name__}', f'{e}'))
    return fails


def judge_collection(case):
    docs = case['docs']
    if case.get('order'):
        # file names / keys / list positions in another order than the message IDs
        docs = [docs[i] for i in case['order'] if i < len(docs)] + docs[len(case['order']):]
    fails = []
    d = _work()
    paths = []
    fstyle = case.get('file_style', 'c{n:03d}.mos.xml')
    for n, doc in enumerate(docs):
        p = os.path.join(d, fstyle.format(n=n))
        with open(p, 'wb') as f:
            f.write(doc.encode('utf-8'))
        paths.append(p)
        if fstyle != 'c{n:03d}.mos.xml':
            # siblings that the file name would match if it were read as a shell pattern
            for sib in (f'c{n}.mos.xml', f'cx{n}.mos.xml', f'c[{n}]x.mos.xml'):
                with open(os.path.join(d, sib), 'wb') as f:
                    f.write(b'<mos><mosID>x</mosID><messageID>1</messageID><roDelete><roID>sibling</roID></roDelete></mos>')
    style = case.get('key_style', 'pre/c{n:03d}.mos.xml')
    objs = {style.format(n=n): doc.encode('utf-8') for n, doc in enumerate(docs)}
    objs['pre/readme.txt'] = b'not a mos file'
    objs['other/x.mos.xml'] = b'<mos/>'
    fake = fakes3.FakeS3({'b': objs}, page_size=case.get('page_size', 2))
    res = {}
    with warnings.catch_warnings():
        warnings.simplefilter('ignore')
        for name, mk in (('strings', lambda: MosCollection.from_strings(docs, allow_incomplete=True)),
                         ('files', lambda: MosCollection.from_files(paths, allow_incomplete=True)),
                         ('s3', lambda: MosCollection.from_s3(bucket_name='b', prefix='pre/', allow_incomplete=True))):
            try:
                with fake:
                    mc = mk()
                    ids = [r.message_id for r in mc.mos_readers]
                    if case.get('shared'):
                        # (the mutual order of the two documents is the source's: what the merge makes
                        # of them - a refusal after completion included - is not compared)
                        res[name] = (ids, '')
                        continue
                    mc.merge(strict=False)
                    res[name] = (ids, str(mc))
            except Exception as e:
                res[name] = (f'EXC {type(e).__name__}: {e}', '')
    # (case['shared']: two different documents share a messageID - only WHICH messages each constructor
    # holds is compared, see above)
    if len({(str(v[0]), v[1]) for v in res.values()}) > 1:
        fails.append(Failure(PROP, 'C18|constructors-disagree',
                             f'from_strings / from_files / from_s3 over the same contents differ: '
                             f'{ {k: (v[0], h64(v[1]) % 10000) for k, v in res.items()} }',
                             res['strings'], res['s3'] if res['s3'] != res['strings'] else res['files']))
    return fails


def judge_listing(case):
    keys, prefix, suffix, page = case['keys'], case['prefix'], case['suffix'], case['page_size']
    # (a third of the objects are zero bytes long: the listing is about names, not about content)
    fake = fakes3.FakeS3({'b': {k: (b'' if h64(k) % 3 == 0 else b'x') for k in keys}, 'other': {'zzz.mos.xml': b'x'}},
                         page_size=page)
    pfx = prefix or ''
    sfx = suffix if suffix is not None else '.mos.xml'
    exp = [k for k in sorted(keys, key=lambda k: k.encode('utf-8')) if k.startswith(pfx) and k.endswith(sfx)]
    try:
        with fake:
            if suffix is None:
                got = s3mod.get_mos_files('b', prefix)
            else:
                got = s3mod.get_mos_files('b', prefix, suffix=suffix)
    except Exception as e:
        return [Failure(PROP, f'C18|listing|raised-{type(e).__name__}', f'get_mos_files raised {e}')]
    if got != exp:
        mode = 'missing-keys' if set(exp) - set(got) else 'extra-keys' if set(got) - set(exp) else 'order'
        return [Failure(PROP, f'C18|listing|{mode}', f'get_mos_files({prefix!r}, suffix={suffix!r}, page size '
                        f'{page}) -> {got}, expected {exp}', exp, got)]
    return []


def rejudge(case):
    try:
        if 'doc' in case:
            return judge_doc(case)
        if 'docs' in case:
            return judge_collection(case)
        return judge_listing(case)
    finally:
        shutil.rmtree(_work(), ignore_errors=True)


# object keys are arbitrary strings: '+', '%XX', spaces and non-ASCII are literal
S3_KEYS = ['k/20210304T223000+0000-roCreate.mos.xml', 'k/a%2Db.mos.xml', 'k/sp ace \u00e9.mos.xml',
           'k/a+b %41.mos.xml', ' k/lead.mos.xml', 'k//double.mos.xml', 'k/q?x=1&y#z.mos.xml']
KEY_STYLES = ['pre/c{n:03d}.mos.xml'] * 3 + ['pre/c{n:03d}+0000.mos.xml', 'pre/%2D c{n:03d}.mos.xml',
                                             'pre/sub dir/\u00e9{n:03d}.mos.xml']
KEY_PARTS = ['a', 'b', 'ro', '10', '9', 'é', 'Z', 'x.mos.xml.bak', '.mos.xml', 'y.mos.xmlz', 'deep/er']


@st.composite
def listings(draw):
    prefixes = ['p/', 'p/sub/', 'q/', '', 'pé/']
    keys = set()
    for _ in range(draw(st.integers(0, 12))):
        k = draw(st.sampled_from(prefixes)) + draw(st.sampled_from(KEY_PARTS)) + \
            draw(st.sampled_from(['', '1', '2']))
        k += draw(st.sampled_from(['.mos.xml', '.mos.xml', '.mos.xml', '.xml', '', '.mos.xml.tmp', '.MOS.XML', '.custom']))
        keys.add(k)
    keys = sorted(keys)
    prefix = draw(st.sampled_from(['p/', 'p/sub/', 'q/', '', None, 'nomatch/', 'p', 'pé/']))
    if keys and draw(st.integers(0, 5)) == 0:
        # the prefix is itself a complete key (picks that object and its longer siblings)
        prefix = draw(st.sampled_from(keys))
        if draw(st.booleans()):
            keys = sorted(set(keys) | {prefix + '.rev2.mos.xml'})
    return {'keys': keys, 'prefix': prefix,
            'suffix': draw(st.sampled_from([None, None, '.mos.xml', '.xml', '.custom', ''])),
            'page_size': draw(st.integers(1, max(1, len(keys) + 1)))}


@st.composite
def documents(draw):
    ro = draw(gen.running_order(max_stories=4, rich=True))
    if draw(st.integers(0, 3)) == 0:
        text = ro['ro_xml']
    else:
        state = xmlcmp.state_of(ET.fromstring(ro['ro_xml']))
        _k, text = draw(gen.message(state, ro['ro_id'], faults='some', rich=True))
    decl = draw(st.sampled_from(['', '', '<?xml version="1.0" encoding="UTF-8"?>\n',
                                 "<?xml version='1.0' encoding='utf-8'?>", '<?xml version="1.0"?>']))
    enc = None
    if not decl and draw(st.integers(0, 3)) == 0:
        from checks.c08 import encodable
        enc = draw(st.sampled_from(['latin1', 'utf16', 'utf16be']))
        if not encodable(text, enc):
            enc = None
    if draw(st.integers(0, 4)) == 0:
        from vlib import build as B_
        text = B_.cdataize(text)           # escaped text written as CDATA sections
    if draw(st.integers(0, 5)) == 0 and '>' in text:
        # a comment / processing instruction inside the root element
        k_ = text.index('>', text.index('<mos')) + 1 if '<mos' in text else None
        if k_:
            text = text[:k_] + draw(st.sampled_from(['<!-- exported by NCS -->', '<?ncs hint?>'])) + text[k_:]
    s3key = draw(st.sampled_from(['k/d.mos.xml'] * 3 + S3_KEYS))
    return {'doc': decl + text, 'decl': bool(decl), 'enc': enc, 's3key': s3key, 'str_decl': draw(st.booleans()),
            'bucket': draw(st.sampled_from(['b', 'b', 'sport-mos-archive', '3sixty-mos', 's3', 'B.ucket_1']))}


def shard(args):
    n, seed = args
    col = Collector(PROP)
    try:
        def one(case):
            na = any(ord(c) > 127 for c in case['doc'])
            cl = ['source:file', 'source:bytes', 'source:s3', 'reader:s3', 'reader:file']
            if case['decl']:
                cl.append('xml-declaration')
            if na:
                cl.append('non-ascii')
            if case.get('enc'):
                cl.append(f"encoding:{case['enc']}")
            col.record({'doc': case['doc'], 'enc': case.get('enc')}, na or case['decl'] or bool(case.get('enc')),
                       cl, judge_doc(case), key=h64(case['doc'], str(case.get('enc'))))
        drive.run_given(documents(), one, n, seed)

        def two(case):
            exp_n = len([k for k in case['keys'] if k.startswith(case['prefix'] or '')])
            pages = -(-exp_n // case['page_size']) if exp_n else 0
            cl = []
            if pages >= 2:
                cl.append('pages>=2')
            sfx = case['suffix'] if case['suffix'] is not None else '.mos.xml'
            nosfx = any(k.startswith(case['prefix'] or '') and not k.endswith(sfx) for k in case['keys'])
            if nosfx:
                cl.append('key-without-suffix')
            if case['prefix'] is None:
                cl.append('prefix:none')
            if case['prefix'] == '':
                cl.append('prefix:empty')
            if exp_n == 0:
                cl.append('listing:empty')
            col.record(case, pages >= 2 or nosfx, cl, judge_listing(case),
                       key=h64(str(case['keys']), str(case['prefix']), str(case['suffix']), case['page_size']))
        drive.run_given(listings(), two, n, seed + 1)

        @st.composite
        def colls(draw):
            c = draw(colgen.collection(min_msgs=1, max_msgs=6, faults='some', rich=True))
            shared = False
            if len(c['docs']) >= 3 and draw(st.integers(0, 3)) == 0:
                from xml.etree import ElementTree as ET
                i, j = draw(st.lists(st.integers(1, len(c['docs']) - 1), min_size=2, max_size=2, unique=True))
                r = ET.fromstring(c['docs'][i])
                r.find('messageID').text = ET.fromstring(c['docs'][j]).findtext('messageID')
                c['docs'][i] = ET.tostring(r, encoding='unicode')
                shared = True
            return {'docs': c['docs'], 'page_size': draw(st.integers(1, 4)), 'shared': shared,
                    'order': list(draw(gen.permutation(range(len(c['docs']))))) if draw(st.booleans()) else None,
                    'key_style': draw(st.sampled_from(KEY_STYLES)),
                    'file_style': draw(st.sampled_from(['c{n:03d}.mos.xml'] * 3 + ['c[{n}].mos.xml', 'c?{n}.mos.xml', 'c*{n}.mos.xml']))}

        def three(case):
            col.record(case, True, ['constructors-agree'] + (['s3-keys-with-+-%-space'] if case['key_style'] != KEY_STYLES[0] else [])
                       + (['two-documents-sharing-a-messageID'] if case.get('shared') else []),
                       judge_collection(case), key=h64(*case['docs']))
        drive.run_given(colls(), three, max(10, n // 5), seed + 2)
    finally:
        shutil.rmtree(_work(), ignore_errors=True)
    return col


def run(tier, seed, procs):
    quick = tier == 'quick'
    shards, per = (8, 150) if quick else (16, 8000)
    cols = drive.pool_map(shard, [(per, seed * 1000 + i) for i in range(shards)], procs)
    return drive.merge_all(PROP, cols)
