"""C10 - the merge result is independent of the order in which inputs are supplied."""
import itertools
import os
import shutil
import warnings
from xml.etree import ElementTree as ET

from hypothesis import strategies as st

from vlib import env, drive, colgen, fakes3, gen
from vlib.findings import Collector, h64
from vlib.step import Failure

from mosromgr.moscollection import MosCollection
from mosromgr.mostypes import MosFile

PROP = 'C10'
MOD = 'checks.c10'
RULE = (
    "Cases: Hypothesis collections (one roCreate + 2-7 messages of all kinds, roDelete optional) with "
    "distinct numeric message IDs drawn from a pool of mixed digit counts (3, 9, 10, 11, 99, 100, "
    "1000, 9999, 10000, ...; every list holds at least one pair that sorts differently as text; in half of the lists some "
    "IDs are written with surrounding whitespace or leading zeros, which int() accepts) x k "
    "drawn permutations of the supplied list (all permutations when <= 4 documents) x each of the "
    "three constructors (strings, files named so that name order != ID order, fake-S3 keys listed in "
    "key order != ID order).  Oracle (metamorphic): [r.message_id for r in mc.mos_readers] is "
    "ascending numerically and identical for every permutation and constructor; str(mc) after a "
    "non-strict merge is identical across permutations and constructors; sorted() of the MosFile "
    "objects - of one running order, and of three - is ascending by integer message ID.  Non-trivial = >= 3 messages, IDs of >= 2 digit "
    "counts, permutation != sorted order."
    ' Also: file names differing only in letter case, the same basename in different directories, whole listing pages of non-MOS keys, envelopes with the messageID after the body and a nested messageID before it, now and then more than 16 messages.'
    ' Round 11: ncsID headers differ from document to document (present with different values, absent).')
ASSUMPTIONS = ['message IDs are distinct integers']
MANDATORY = ['more-than-16-messages', 'padded-message-id', 'constructor:strings', 'constructor:files', 'constructor:s3', 'lexical!=numeric',
             'permutation!=sorted', 'sorted(MosFile)']


def build(docs, source, workdir, tag):
    if source == 'strings':
        return MosCollection.from_strings(docs, allow_incomplete=True), None
    if source == 'files':
        d = os.path.join(workdir, tag)
        os.makedirs(d, exist_ok=True)
        paths = []
        for n, doc in enumerate(docs):
            # half of the time every file has the same basename, in a directory of its own
            if tag.endswith('1') or tag.endswith('3'):
                os.makedirs(os.path.join(d, f'dir{n:03d}'), exist_ok=True)
                p = os.path.join(d, f'dir{n:03d}', 'message.mos.xml')
            elif tag.endswith('2') or tag.endswith('4'):
                # names that differ only in letter case (two different files on a case-sensitive file system)
                p = os.path.join(d, ('Msg%02d.mos.xml' if n % 2 else 'msg%02d.mos.xml') % (n // 2))
            else:
                p = os.path.join(d, f'{n:03d}.mos.xml')
            with open(p, 'w', encoding='utf-8') as f:
                f.write(doc)
            paths.append(p)
        return MosCollection.from_files(paths, allow_incomplete=True), None
    objs = {f'p/{n:03d}.mos.xml': doc.encode('utf-8') for n, doc in enumerate(docs)}
    # keys that are not MOS files fill whole listing pages before, between and after them
    objs.update({'p/000-a.txt': b'x', 'p/000-b.txt': b'x', 'p/000-c.md': b'x', 'p/001-notes.txt': b'x',
                 'p/001-z.txt': b'x', 'p/zz.txt': b'x', 'q/other.mos.xml': b'<mos/>'})
    fake = fakes3.FakeS3({'b': objs}, page_size=2)
    with fake:
        return MosCollection.from_s3(bucket_name='b', prefix='p/', allow_incomplete=True), fake


def judge_case(case):
    workdir = os.path.join(env.WORK_DIR, f'c10-{os.getpid()}')
    docs = case['docs']
    fails = []
    try:
        mids = sorted(MosFile.from_string(d).message_id for d in docs[1:])
        results = {}
        for pi, perm in enumerate(case['perms']):
            supplied = [docs[i] for i in perm]
            for source in case['sources']:
                with warnings.catch_warnings():
                    warnings.simplefilter('ignore')
                    mc, fake = build(supplied, source, workdir, f'{pi}')
                    ids = [r.message_id for r in mc.mos_readers]
                    if ids != mids:
                        fails.append(Failure(PROP, f'C10|{source}|readers-not-in-numeric-order',
                                             f'{source}: reader IDs {ids}, ascending numeric order is {mids} '
                                             f'(supplied order {[MosFile.from_string(d).message_id for d in supplied]})',
                                             mids, ids))
                    try:
                        if fake is not None:
                            with fake:
                                mc.merge(strict=False)
                        else:
                            mc.merge(strict=False)
                        results[(pi, source)] = str(mc)
                    except Exception as e:
                        results[(pi, source)] = f'EXC {type(e).__name__}'
        if len(set(results.values())) > 1:
            ks = sorted(results, key=lambda k: results[k])
            fails.append(Failure(PROP, 'C10|merge-result-depends-on-supplied-order',
                                 f'merge results differ between permutations/constructors: '
                                 f'{ {str(k): h64(v) % 10000 for k, v in results.items()} }',
                                 results[ks[0]], results[ks[-1]]))
        with warnings.catch_warnings():
            warnings.simplefilter('ignore')
            objs = [MosFile.from_string(docs[i]) for i in case['perms'][-1]]
            got = [o.message_id for o in sorted(objs)]
            allm = sorted(MosFile.from_string(d).message_id for d in docs)
            if got != allm:
                fails.append(Failure(PROP, 'C10|sorted-mosfiles-not-numeric',
                                     f'sorted(MosFile objects) gives {got}, expected {allm}', allm, got))
            # ... and with a COMPLETED running order (merged output read back) carrying an ID in the middle
            r_ = ET.fromstring(docs[0])
            mid_ = sorted(allm)[len(allm) // 2] if allm else 1
            r_.find('messageID').text = str(mid_ * 10 + 5)
            r_.append(ET.fromstring('<mosromgrmeta><roDelete><roID>x</roID></roDelete></mosromgrmeta>'))
            objs2 = objs + [MosFile.from_string(ET.tostring(r_, encoding='unicode'))]
            want2 = sorted(allm + [mid_ * 10 + 5])
            got2 = [o.message_id for o in sorted(objs2)]
            if got2 != want2:
                fails.append(Failure(PROP, 'C10|sorted-mosfiles-with-completed-running-order-not-numeric',
                                     f'sorted(MosFile objects incl. a completed running order) gives {got2}, '
                                     f'expected {want2}', want2, got2))
            # the same messages addressed to three running orders (a directory of several)
            objs = []
            for n, i in enumerate(case['perms'][-1]):
                root = ET.fromstring(docs[i])
                for rid in root.iter('roID'):
                    rid.text = ('ZZ-other', rid.text, 'AA-other')[n % 3]
                    break
                objs.append(MosFile.from_string(ET.tostring(root, encoding='unicode')))
            got = [o.message_id for o in sorted(objs)]
            if got != allm or min(objs).message_id != allm[0] or max(objs).message_id != allm[-1]:
                fails.append(Failure(PROP, 'C10|sorted-mosfiles-of-several-running-orders-not-numeric',
                                     f'sorted(MosFile objects of three running orders) gives {got}, '
                                     f'expected {allm}', allm, got))
    finally:
        shutil.rmtree(workdir, ignore_errors=True)
    return fails


def rejudge(case):
    return judge_case(case)


@st.composite
def cases(draw):
    big = draw(st.integers(0, 7)) == 0          # now and then more than 16 messages
    col = draw(colgen.collection(min_msgs=17 if big else 2, max_msgs=22 if big else 7, faults='some',
                                 pad_ids=draw(st.booleans())))
    docs = col['docs']
    n = len(docs)
    if n <= 4:
        perms = [list(p) for p in itertools.permutations(range(n))]
    else:
        perms = [list(range(n)), list(range(n - 1, -1, -1))] + \
            [list(draw(gen.permutation(range(n)))) for _ in range(3)]
    sources = draw(st.sampled_from([['strings'], ['strings', 'files'], ['strings', 's3'],
                                    ['files', 's3'], ['strings', 'files', 's3']]))
    return {'docs': docs, 'perms': perms, 'sources': sources}


def shard(args):
    n, seed = args
    col = Collector(PROP)

    def one(case):
        mids = [MosFile.from_string(d).message_id for d in case['docs']]
        widths = {len(str(m)) for m in mids}
        lex = sorted(mids, key=str) != sorted(mids)
        classes = [f'constructor:{s}' for s in case['sources']] + ['sorted(MosFile)']
        if len(case['docs']) > 17:
            classes.append('more-than-16-messages')
        if lex:
            classes.append('lexical!=numeric')
        nonsorted = any(p != sorted(p) for p in case['perms'])
        if nonsorted:
            classes.append('permutation!=sorted')
        classes.append(f'permutations:{min(len(case["perms"]), 24)}')
        if any(('<messageID> ' in d or '<messageID>\n' in d or '<messageID>00' in d) for d in case['docs']):
            classes.append('padded-message-id')
        nontrivial = len(mids) >= 4 and len(widths) >= 2 and nonsorted
        col.record(case, nontrivial, classes, judge_case(case), key=h64(*case['docs'], str(case['perms'])))
    drive.run_given(cases(), one, n, seed)
    return col


def run(tier, seed, procs):
    quick = tier == 'quick'
    shards, per = (8, 150) if quick else (16, 3000)
    cols = drive.pool_map(shard, [(per, seed * 1000 + i) for i in range(shards)], procs)
    return drive.merge_all(PROP, cols)
