"""C16 - durations, offsets, start and end times are arithmetically consistent."""
import itertools
import warnings
from datetime import timedelta
from xml.etree import ElementTree as ET

from hypothesis import strategies as st

from vlib import env, drive, gen, history, build as B, access
from vlib.access import call, close, tclose
from vlib.findings import Collector, h64
from vlib.step import Failure

from mosromgr.mostypes import RunningOrder

PROP = 'C16'
MOD = 'checks.c16'
SHRINK_FIELDS = ['ro_xml', 'msg_xml']
RULE = (
    "Cases: (a) Hypothesis duration vectors - 1-8 stories, each with a drawn duration source "
    "(StoryDuration / TextTime+MediaTime / TextTime / MediaTime / all three, values from integers, "
    "quarter seconds and short decimals), explicit StoryStarted / StoryEnded on any subset, roEdStart "
    "present / empty / absent, untimed stories mixed in; (b) Hypothesis single steps and histories "
    "with every carried story timed (states after move / swap / insert / replace / delete / re-send / "
    "roReplace).  Oracle, recomputed from ro.xml by the harness: story duration = StoryDuration, else "
    "TextTime + MediaTime with a missing one as 0, else None; when every story has a duration: "
    "ro.duration = sum and story.offset = prefix sum; story start = explicit StoryStarted, else "
    "ro start + offset (None without roEdStart); story end = explicit StoryEnded, else start + "
    "duration; ro.end_time = last story's end; ro.start_time = roEdStart.  Tolerance 1e-6 relative on "
    "floats, 2 us on datetimes (the library sums floats and builds timedeltas).  Non-trivial = >= 3 "
    "stories with >= 2 distinct duration sources, or a post-merge state with >= 2 stories."
    ' Also: running orders without stories (duration 0), an offset on roEdStart only, present-but-empty timing tags (count as absent), roMetadataReplace carrying a new roEdStart in the histories; the oracle reads an independent parse of str(ro).')
ASSUMPTIONS = ['durations are finite decimal literals 0 <= d <= 1e6, times ISO-8601, within one running order all naive or all with the same UTC offset',
               'when some story has no duration only per-story durations and explicit times are compared']
MANDATORY = ['aware-times', 'time-without-seconds', 'all-timed', 'explicit-start', 'explicit-end', 'no-roEdStart', 'post-merge:reordered',
             'mixed-sources', 'some-untimed']


def check(ro):
    fails = []
    rc = ET.fromstring(str(ro)).find('roCreate')   # independent parse, not the library's own tree
    xs = [c for c in rc if c.tag == 'story']

    def mism(what, exp, got):
        fails.append(Failure(PROP, f'C16|{what}|inconsistent', f'{what}: library {got!r}, recomputed {exp!r}', exp, got))
    ok, stories = call(ro, 'stories', fails, PROP, 'RunningOrder')
    if not ok or len(stories) != len(xs):
        return fails
    durs = [access.x_duration(x) for x in xs]
    all_timed = all(d is not None for d in durs)
    es = rc.find('roEdStart')
    ro_start = access.x_time(es.text) if es is not None and es.text is not None else None
    ok, v = call(ro, 'start_time', fails, PROP, 'RunningOrder')
    if ok and not tclose(v, ro_start):
        mism('ro.start_time', ro_start, v)
    ok, v = call(ro, 'duration', fails, PROP, 'RunningOrder')
    if ok and all_timed and not close(v, sum(durs) if durs else 0):
        # (no stories at all: every story has a duration, and their sum is 0)
        mism('ro.duration', sum(durs), v)
    t = 0.0
    last_end = None
    for st_, x, d in zip(stories, xs, durs):
        ok, v = call(st_, 'duration', fails, PROP, 'Story')
        if ok and not close(v, d):
            mism('Story.duration', d, v)
        exp_start = access.x_explicit(x, 'StoryStarted')
        exp_end = access.x_explicit(x, 'StoryEnded')
        if all_timed:
            ok, v = call(st_, 'offset', fails, PROP, 'Story')
            if ok and not close(v, t):
                mism('Story.offset', t, v)
            if exp_start is None and ro_start is not None:
                exp_start = ro_start + timedelta(seconds=t)
            if exp_end is None and exp_start is not None:
                exp_end = exp_start + timedelta(seconds=d)
            ok, v = call(st_, 'start_time', fails, PROP, 'Story')
            if ok and not tclose(v, exp_start):
                mism('Story.start_time', exp_start, v)
            ok, v = call(st_, 'end_time', fails, PROP, 'Story')
            if ok and not tclose(v, exp_end):
                mism('Story.end_time', exp_end, v)
            last_end = exp_end
            t += d
        else:
            if exp_start is not None:
                ok, v = call(st_, 'start_time', fails, PROP, 'Story')
                if ok and not tclose(v, exp_start):
                    mism('Story.start_time(explicit)', exp_start, v)
            if exp_end is not None:
                ok, v = call(st_, 'end_time', fails, PROP, 'Story')
                if ok and not tclose(v, exp_end):
                    mism('Story.end_time(explicit)', exp_end, v)
    if all_timed:
        ok, v = call(ro, 'end_time', fails, PROP, 'RunningOrder')
        if ok and not tclose(v, last_end):
            mism('ro.end_time', last_end, v)
    return fails


def _classes(ro_xml):
    rc = ET.fromstring(ro_xml).find('roCreate')
    xs = [c for c in rc if c.tag == 'story']
    cl = []
    durs = [access.x_duration(x) for x in xs]
    if xs and all(d is not None for d in durs):
        cl.append('all-timed')
    elif any(d is None for d in durs):
        cl.append('some-untimed')
    srcs = set()
    for x in xs:
        pl = access._payload(x)
        if pl is not None:
            srcs.add(tuple(sorted(c.tag for c in pl if c.tag in ('StoryDuration', 'TextTime', 'MediaTime'))))
            if pl.find('StoryStarted') is not None:
                cl.append('explicit-start')
            if pl.find('StoryEnded') is not None:
                cl.append('explicit-end')
    if len(srcs) >= 2:
        cl.append('mixed-sources')
    es = rc.find('roEdStart')
    if es is None or es.text is None:
        cl.append('no-roEdStart')
    if any(((t.text or '')[-6:-5] in '+-' and ':' in (t.text or '')[-6:]) or (t.text or '').endswith('Z') for t in rc.iter()
           if t.tag in ('roEdStart', 'StoryStarted', 'StoryEnded')):
        cl.append('aware-times')
    if any(t.text and len(t.text) == 16 for t in rc.iter() if t.tag in ('StoryStarted', 'StoryEnded')):
        cl.append('time-without-seconds')
    return sorted(set(cl)), len(xs), len(srcs)


def judge(ev):
    if ev.obs.ro is None:
        return []
    return check(ev.obs.ro)


def record(col, ev):
    if ev.obs.ro is None:
        col.record(ev.case, False, ['unclassified'], [], key=0)
        return
    cl, n, nsrc = _classes(ev.obs.after)
    reordered = ev.obs.after != ev.obs.before and ev.msg.level in ('story', 'meta')
    if reordered:
        cl.append('post-merge:reordered')
    col.record(ev.case, n >= 2 and ev.obs.after != ev.obs.before, cl + [f'after:{ev.obs.cls_name}'],
               judge(ev), key=drive.ev_key(ev))


def rejudge(case):
    if 'history' in case:
        return history.rejudge_history(case, MOD)
    if 'msg_xml' not in case:
        return check(RunningOrder.from_string(case['ro_xml']))
    return judge(drive.eval_step(case))


DUR_TEXT = ['0', '1', '2', '3', '5', '10', '0.25', '0.5', '0.75', '1.75', '12.5', '100', '59.04', '0.1',
            '0.2', '0.3', '1e2', '3600', '86399.99', '7.000', '.5', '  4 ', '0.0', '00', '+5', '005', '3.0000001',
            '1E1', '7.', '999999', '0.001']


@st.composite
def timed_ro(draw):
    n = draw(st.sampled_from([0, 1, 1, 2, 2, 3, 3, 4, 5, 6, 7, 8]))
    stories = []
    for i in range(n):
        shape = draw(st.sampled_from(['dur', 'tt+mt', 'tt', 'mt', 'all', 'dur', 'tt+mt'] +
                                     (['none'] if draw(st.integers(0, 5)) == 0 else [])))
        f = {}
        if shape in ('dur', 'all'):
            f['StoryDuration'] = draw(st.sampled_from(DUR_TEXT))
        if shape in ('tt+mt', 'tt', 'all'):
            f['TextTime'] = draw(st.sampled_from(DUR_TEXT))
        if shape in ('tt+mt', 'mt', 'all'):
            f['MediaTime'] = draw(st.sampled_from(DUR_TEXT))
        if draw(st.integers(0, 4)) == 0:
            f['StoryStarted'] = draw(gen.TIMES)
        if draw(st.integers(0, 4)) == 0:
            f['StoryEnded'] = draw(gen.TIMES)
        items = list(f.items())
        if draw(st.booleans()):
            items.reverse()
        tm = None if shape == 'none' else B.timing_block(dict(items))
        stories.append(B.mk_story(f'S{i}', slug='s', timing=tm, body=[B.P('x')]))
    ed = draw(st.sampled_from([None, '', '2020-01-01T12:30:00', '2021-03-04T05:06:07.500000',
                               '2020-01-01T12:30:00', '1999-12-31T23:59:59']))
    xml = B.tostring(B.envelope(B.ro_create('RO1', stories, ed_start=ed), 5))
    # in a quarter of the documents every time carries the same UTC offset (all aware)
    zone = draw(st.sampled_from(['', '', '', '+01:00', '-05:30', '+00:00', 'Z']))
    # ... or only the running-order start carries one, the explicit story times are written without
    # (each accessor still returns the time as written; the relations only ever combine a time with
    # a duration, never an aware with a naive time)
    which = 'roEdStart' if zone and draw(st.integers(0, 3)) == 0 else 'roEdStart|StoryStarted|StoryEnded'
    if zone:
        import re
        xml = re.sub(r'(<(' + which + r')>)(\d{4}-\d\d-\d\dT[0-9:.]+)(</)',
                     lambda m_: m_.group(1) + m_.group(3) + zone + m_.group(4), xml)
    return {'ro_xml': xml}


def shard_vectors(args):
    n, seed = args
    col = Collector(PROP)

    def one(case):
        cl, ns, nsrc = _classes(case['ro_xml'])
        col.record(case, ns >= 3 and nsrc >= 2, cl + ['pristine'], rejudge(case), key=h64(case['ro_xml']))
    drive.run_given(timed_ro(), one, n, seed)
    return col


def run(tier, seed, procs):
    quick = tier == 'quick'
    shards, per = (8, 300) if quick else (16, 15000)
    cols = drive.pool_map(shard_vectors, [(per, seed * 1000 + i) for i in range(shards)], procs)
    kinds = list(gen.STORY_KINDS) + ['roReplace', 'roMetadataReplace']     # (the latter may carry a new roEdStart)
    kw = dict(kinds=kinds, faults='none', rich=True, timing_mode='timed', min_stories=2)
    cols += drive.pool_map(drive.shard_hyp_steps,
                           [(MOD, per // 2, seed * 1000 + 100 + i, kw) for i in range(shards)], procs)
    hs, runs, steps = (8, 25, 20) if quick else (16, 600, 50)
    cols += drive.pool_map(history.shard_history,
                           [(MOD, runs, steps, seed * 1000 + 500 + i,
                             {'faults': 'none', 'degenerate': False, 'timing_mode': 'timed', 'kinds': kinds})
                            for i in range(hs)], procs)
    return drive.merge_all(PROP, cols)
